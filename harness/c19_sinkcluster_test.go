//go:build verif

package sinkcluster

// C19 harness, journal side (virtual file in /repo/common/ipsetsink/sinkcluster via -overlay):
// the real ClusterWriter on generated add/flush sequences (explicit flushes and interval-driven
// ones), the real ClusterCounter on the journals it wrote and on synthetic journals, with windows
// on and around every chunk boundary; large chunks (long journal lines, approximate regime).

import (
	"bytes"
	"crypto/hmac"
	"encoding/binary"
	"encoding/json"
	"fmt"
	"sort"
	"strings"
	"testing"
	"time"

	"git.torproject.org/pluggable-transports/snowflake.git/v2/common/ipsetsink"
	vh "git.torproject.org/pluggable-transports/snowflake.git/v2/common/zzverif"
	"github.com/clarkduvall/hyperloglog"
	"golang.org/x/crypto/sha3"
)

const c19key = "verif-key"

// the line limit of the reader as modelled (Model/Metrics.lean readerLimit, tied to reader.go)
const c19modelLimit = 16777216

type c19file struct {
	bytes.Buffer
	syncs int
}

func (f *c19file) Sync() error { f.syncs++; return nil }

func c19mask(addr string) uint64 {
	m := hmac.New(sha3.New256, []byte(c19key))
	m.Write([]byte(addr))
	return binary.BigEndian.Uint64(m.Sum(nil)[:8])
}

func c19collide(addrs map[string]bool) bool {
	seen := map[uint64]bool{}
	for a := range addrs {
		h := c19mask(a) >> 39
		if seen[h] {
			return true
		}
		seen[h] = true
	}
	return false
}

func c19sketchCount(dump []byte) (uint64, error) {
	h, _ := hyperloglog.NewPlus(18)
	if err := h.GobDecode(dump); err != nil {
		return 0, err
	}
	return h.Count(), nil
}

// c19chunk is what the harness knows about one journal line.
type c19chunk struct {
	start, end time.Time
	addrs      []string // distinct addresses recorded (harness-side truth)
	lineLen    int      // bytes, with the newline
}

type c19ids map[string]int

func (m c19ids) of(a string) int {
	if _, ok := m[a]; !ok {
		m[a] = len(m)
	}
	return m[a]
}

func c19addr(r *vh.Run, universe int) string {
	k := r.Rng.Intn(universe)
	if k%3 == 0 {
		return fmt.Sprintf("2001:db8::%x", k)
	}
	return fmt.Sprintf("198.51.%d.%d", k/256, k%256)
}

func c19distinct(l []string) []string {
	seen := map[string]bool{}
	var out []string
	for _, a := range l {
		if !seen[a] {
			seen[a] = true
			out = append(out, a)
		}
	}
	return out
}

// c19parseJournal reads the journal with encoding/json only (independent of reader.go).
func c19parseJournal(b []byte) ([]SinkEntry, []int, error) {
	var out []SinkEntry
	var lens []int
	for len(b) > 0 {
		i := bytes.IndexByte(b, '\n')
		if i < 0 {
			return nil, nil, fmt.Errorf("unterminated line")
		}
		var e SinkEntry
		if err := json.Unmarshal(b[:i], &e); err != nil {
			return nil, nil, err
		}
		out = append(out, e)
		lens = append(lens, i+1)
		b = b[i+1:]
	}
	return out, lens, nil
}

// c19shape is the time-free canonical form of a journal: per chunk its cardinality, whether it
// starts where the previous one ended, whether start <= end; plus the cardinality still pending.
func c19shape(starts, ends []int64, cards []uint64, cur uint64) string {
	var cs, contig, ord []string
	for i := range cards {
		cs = append(cs, fmt.Sprint(cards[i]))
		if i > 0 {
			contig = append(contig, fmt.Sprint(starts[i] == ends[i-1]))
		}
		ord = append(ord, fmt.Sprint(starts[i] <= ends[i]))
	}
	return fmt.Sprintf("n=%d cards=%s contiguous=%s ordered=%s cur=%d", len(cards), strings.Join(cs, ","), strings.Join(contig, ","), strings.Join(ord, ","), cur)
}

func c19modelShape(reply string) string {
	// chunks=<s>-<e>-<card>;… cur=<card>
	f := strings.Fields(reply)
	if len(f) != 2 || !strings.HasPrefix(f[0], "chunks=") || !strings.HasPrefix(f[1], "cur=") {
		return "unparsable:" + reply
	}
	var starts, ends []int64
	var cards []uint64
	if cs := strings.TrimPrefix(f[0], "chunks="); cs != "." {
		for _, c := range strings.Split(cs, ";") {
			var s, e int64
			var k uint64
			if _, err := fmt.Sscanf(c, "%d-%d-%d", &s, &e, &k); err != nil {
				return "unparsable:" + reply
			}
			starts, ends, cards = append(starts, s), append(ends, e), append(cards, k)
		}
	}
	var cur uint64
	fmt.Sscanf(strings.TrimPrefix(f[1], "cur="), "%d", &cur)
	return c19shape(starts, ends, cards, cur)
}

// c19runWriter drives the real ClusterWriter; returns the journal and the harness-side truth.
func c19runWriter(r *vh.Run, nops, universe int) (journal []byte, chunks []c19chunk, ok bool) {
	rng := r.Rng
	f := &c19file{}
	w := NewClusterWriter(f, time.Hour, ipsetsink.NewIPSetSink(c19key))
	const big = 1000000
	clock := 1000
	var toks []string
	var cur []string
	var truth [][]string
	ids := c19ids{}
	flushes := 0
	for i := 0; i < nops; i++ {
		clock++
		switch k := rng.Intn(10); {
		case k < 6: // add within the interval
			a := c19addr(r, universe)
			w.AddIPToSet(a)
			cur = append(cur, a)
			toks = append(toks, fmt.Sprintf("a%d:%d", clock, ids.of(a)))
		case k < 8: // add after the interval has elapsed: the writer must flush first, then add
			a := c19addr(r, universe)
			w.writeInterval = -time.Nanosecond // lastWriteTime + interval is now certainly before time.Now()
			w.AddIPToSet(a)
			w.writeInterval = time.Hour
			truth = append(truth, c19distinct(cur))
			cur = []string{a}
			flushes++
			toks = append(toks, fmt.Sprintf("b%d:%d", clock, ids.of(a)))
		default:
			w.WriteIPSetToDisk()
			truth = append(truth, c19distinct(cur))
			cur = nil
			flushes++
			toks = append(toks, fmt.Sprintf("f%d", clock))
		}
	}
	ops := "."
	if len(toks) > 0 {
		ops = strings.Join(toks, ",")
	}
	line := fmt.Sprintf("c19 writer %d 1000 %s", big, ops)
	r.Case(fmt.Sprintf("writer/flushes=%d", flushes), line, nops > 0)
	entries, lens, err := c19parseJournal(f.Bytes())
	if err != nil {
		r.OracleFail("writer-journal-unparsable", line, err.Error(), "every journal line must be a JSON object terminated by a newline")
		return nil, nil, false
	}
	var starts, ends []int64
	var cards []uint64
	for _, e := range entries {
		c, err := c19sketchCount(e.Recorded)
		if err != nil {
			r.OracleFail("writer-sketch-undecodable", line, err.Error(), "recorded must be a decodable sketch")
			return nil, nil, false
		}
		starts, ends, cards = append(starts, e.RecordingStart.UnixNano()), append(ends, e.RecordingEnd.UnixNano()), append(cards, c)
	}
	pend, _ := w.current.Dump()
	pc, _ := c19sketchCount(pend)
	all := map[string]bool{}
	for _, t := range truth {
		for _, a := range t {
			all[a] = true
		}
	}
	for _, a := range cur {
		all[a] = true
	}
	if c19collide(all) {
		r.Skip("masked values collide in the sketch's sparse index (outside the exact regime): " + line)
		return nil, nil, false
	}
	real := c19shape(starts, ends, cards, pc)
	r.Compare("writer-journal", line, real, c19modelShape(r.Model(line)))
	// oracle: one line and one Sync per flush; each chunk counts exactly the distinct addresses added
	// since the previous chunk; chunks are contiguous in time
	var wc, wcontig, word []string
	for i, t := range truth {
		wc = append(wc, fmt.Sprint(len(t)))
		if i > 0 {
			wcontig = append(wcontig, "true")
		}
		word = append(word, "true")
	}
	want := fmt.Sprintf("n=%d cards=%s contiguous=%s ordered=%s cur=%d", len(truth), strings.Join(wc, ","), strings.Join(wcontig, ","), strings.Join(word, ","), len(c19distinct(cur)))
	if real != want || f.syncs != len(truth) {
		r.OracleFail("writer-chunks-wrong", line, fmt.Sprintf("%s syncs=%d", real, f.syncs), "expected "+want+fmt.Sprintf(" syncs=%d", len(truth)))
		return nil, nil, false
	}
	for i, e := range entries {
		chunks = append(chunks, c19chunk{e.RecordingStart, e.RecordingEnd, truth[i], lens[i]})
	}
	return f.Bytes(), chunks, true
}

// c19windows queries the real reader with windows on and around the chunk boundaries.
func c19windows(r *vh.Run, class string, journal []byte, chunks []c19chunk, maxWin int) {
	rng := r.Rng
	if len(chunks) == 0 {
		res, err := NewClusterCounter(time.Unix(0, 0), time.Unix(1<<40, 0)).Count(bytes.NewReader(journal))
		r.Case(class+"/empty", "c19 count 0 1 .", false)
		if err != nil || res.Sum != 0 || res.ChunkIncluded != 0 {
			r.OracleFail("window-empty-journal", "empty journal", fmt.Sprint(res, err), "an empty journal counts 0 in 0 chunks")
		}
		return
	}
	base := chunks[0].start.UnixNano()
	for _, c := range chunks {
		if c.start.UnixNano() < base {
			base = c.start.UnixNano()
		}
		if c.end.UnixNano() < base {
			base = c.end.UnixNano()
		}
	}
	base -= 1000
	off := func(t time.Time) int64 { return t.UnixNano() - base }
	candSet := map[int64]bool{0: true}
	for _, c := range chunks {
		for _, b := range []int64{off(c.start), off(c.end)} {
			candSet[b-1], candSet[b], candSet[b+1] = true, true, true
		}
	}
	var cands []int64
	for c := range candSet {
		cands = append(cands, c)
	}
	sort.Slice(cands, func(a, b int) bool { return cands[a] < cands[b] })
	cands = append(cands, cands[len(cands)-1]+1000)
	ids := c19ids{}
	var parts []string
	all := map[string]bool{}
	for _, c := range chunks {
		var vs []string
		for _, a := range c.addrs {
			vs = append(vs, fmt.Sprint(ids.of(a)))
			all[a] = true
		}
		set := "-"
		if len(vs) > 0 {
			set = strings.Join(vs, ".")
		}
		parts = append(parts, fmt.Sprintf("%d:%d:%s:%d", off(c.start), off(c.end), set, c.lineLen))
	}
	if c19collide(all) {
		r.Skip("masked values collide in the sketch's sparse index (outside the exact regime)")
		return
	}
	type win struct{ from, to int64 }
	var wins []win
	if len(cands)*len(cands) <= maxWin {
		for _, a := range cands {
			for _, b := range cands {
				wins = append(wins, win{a, b})
			}
		}
	} else {
		wins = append(wins, win{cands[0], cands[len(cands)-1]})
		for i := 1; i < maxWin; i++ {
			wins = append(wins, win{cands[rng.Intn(len(cands))], cands[rng.Intn(len(cands))]})
		}
	}
	for _, w := range wins {
		from, to := time.Unix(0, base+w.from), time.Unix(0, base+w.to).UTC()
		res, err := NewClusterCounter(from, to).Count(bytes.NewReader(journal))
		real := "error"
		if err == nil {
			real = fmt.Sprintf("%d %d", res.Sum, res.ChunkIncluded)
		}
		line := fmt.Sprintf("c19 countl 1 %d %d %d %s", c19modelLimit, w.from, w.to, strings.Join(parts, ";"))
		// oracle: exactly the chunks with from <= start && end <= to, merged
		inc := 0
		union := map[string]bool{}
		for _, c := range chunks {
			if w.from <= off(c.start) && off(c.end) <= w.to {
				inc++
				for _, a := range c.addrs {
					union[a] = true
				}
			}
		}
		sel := "none"
		switch {
		case inc == len(chunks):
			sel = "all"
		case inc > 0:
			sel = "some"
		}
		r.Case(class+"/selected="+sel, line, true)
		r.Compare("window-count", line, real, r.Model(line))
		if err != nil {
			r.OracleFail("window-reader-error", line, err.Error(), "a well-formed journal must be countable")
			continue
		}
		if int(res.ChunkIncluded) != inc {
			r.OracleFail("window-selects-wrong-chunks", line, real, fmt.Sprintf("exactly the %d chunks with from <= start and end <= to must be merged", inc))
		} else if res.Sum != uint64(len(union)) {
			r.OracleFail("window-merged-count-wrong", line, real, fmt.Sprintf("the merged sketch must count the %d distinct addresses of the selected chunks (exact regime)", len(union)))
		}
	}
}

// c19entry builds one journal line from a real sink, with chosen times and optional padding.
func c19entry(start, end time.Time, addrs []string, padTo int) []byte {
	s := ipsetsink.NewIPSetSink(c19key)
	for _, a := range addrs {
		s.AddIPToSet(a)
	}
	d, _ := s.Dump()
	b, _ := json.Marshal(&SinkEntry{RecordingStart: start, RecordingEnd: end, Recorded: d})
	if padTo > len(b)+1 {
		// padTo = wanted line length with the newline; JSON permits white space before the closing brace
		pad := bytes.Repeat([]byte(" "), padTo-len(b)-1)
		b = append(append(b[:len(b)-1:len(b)-1], pad...), '}')
	}
	return append(b, '\n')
}

func c19synthetic(r *vh.Run) {
	rng := r.Rng
	t0 := time.Date(2022, 5, 30, 14, 0, 0, 0, time.UTC)
	for i := 0; i < r.N(60, 1200); i++ {
		n := rng.Intn(5)
		var journal []byte
		var chunks []c19chunk
		for j := 0; j < n; j++ {
			// times from a coarse grid: coinciding, overlapping, out-of-order and inverted chunks all occur
			s := t0.Add(time.Duration(rng.Intn(4)) * time.Second)
			e := t0.Add(time.Duration(rng.Intn(4)) * time.Second)
			if rng.Intn(4) != 0 && e.Before(s) {
				s, e = e, s
			}
			var addrs []string
			for k, m := 0, rng.Intn(6); k < m; k++ {
				addrs = append(addrs, c19addr(r, 12))
			}
			addrs = c19distinct(addrs)
			line := c19entry(s, e, addrs, 0)
			journal = append(journal, line...)
			chunks = append(chunks, c19chunk{s, e, addrs, len(line)})
		}
		c19windows(r, "reader/synthetic", journal, chunks, r.N(40, 120))
	}
}

// c19large: chunks with many addresses (long journal lines; sketch in its approximate regime).
// The model is given the chunk boundaries and line lengths only; the merged estimate is checked
// against the true number of distinct addresses with the sketch's error bound (p = 18: standard
// error 0.2 %; tolerance 2 %).
func c19large(r *vh.Run) {
	t0 := time.Date(2022, 5, 30, 14, 0, 0, 0, time.UTC)
	sizes := []int{3000, 21000, 23000, 60000}
	if r.Thorough() {
		sizes = append(sizes, 22000, 150000, 400000)
	}
	for _, n := range sizes {
		var big []string
		for i := 0; i < n; i++ {
			big = append(big, fmt.Sprintf("10.%d.%d.%d", i>>16, (i>>8)&255, i&255))
		}
		small := []string{"192.0.2.1", "192.0.2.2", "10.0.0.1"} // 10.0.0.1 is also in the big chunk
		l1 := c19entry(t0, t0.Add(time.Hour), small[:2], 0)
		l2 := c19entry(t0.Add(time.Hour), t0.Add(2*time.Hour), big, 0)
		l3 := c19entry(t0.Add(2*time.Hour), t0.Add(3*time.Hour), small, 0)
		journal := append(append(append([]byte{}, l1...), l2...), l3...)
		c19approx(r, fmt.Sprintf("reader/large/n=%d", n), journal, []int{len(l1), len(l2), len(l3)}, t0, n+2)
	}
	// line-length boundary of the default scanner buffer (64 KiB) and of the modelled limit
	for _, L := range []int{65535, 65536, 65537, 70000, c19modelLimit, c19modelLimit + 1} {
		if L > 1000000 && !r.Thorough() && L != c19modelLimit+1 {
			continue
		}
		l1 := c19entry(t0, t0.Add(time.Hour), []string{"192.0.2.1"}, L)
		l2 := c19entry(t0.Add(time.Hour), t0.Add(2*time.Hour), []string{"192.0.2.2"}, 0)
		journal := append(append([]byte{}, l1...), l2...)
		c19approx(r, fmt.Sprintf("reader/linelen=%d", L), journal, []int{len(l1), len(l2)}, t0, 2)
	}
}

func c19approx(r *vh.Run, class string, journal []byte, lens []int, t0 time.Time, distinct int) {
	var parts []string
	for i, l := range lens {
		parts = append(parts, fmt.Sprintf("%d:%d:-:%d", 3600*i+10, 3600*(i+1)+10, l))
	}
	line := fmt.Sprintf("c19 countl 1 %d 0 %d %s", c19modelLimit, 3600*len(lens)+20, strings.Join(parts, ";"))
	res, err := NewClusterCounter(t0.Add(-10*time.Second), t0.Add(time.Duration(len(lens))*time.Hour+10*time.Second)).Count(bytes.NewReader(journal))
	real := "error"
	if err == nil {
		real = fmt.Sprint(res.ChunkIncluded)
	}
	model := r.Model(line)
	if f := strings.Fields(model); len(f) == 2 {
		model = f[1] // the model's chunks carry no values here; only ChunkIncluded / error is compared
	}
	r.Case(class, line+fmt.Sprintf(" | lines of %v bytes, %d distinct addresses", lens, distinct), true)
	r.Compare("window-large", line, real, model)
	tooLong := false
	for _, l := range lens {
		if l > c19modelLimit {
			tooLong = true
		}
	}
	switch {
	case tooLong:
		if err == nil {
			r.OracleFail("reader-drops-long-line-silently", line, fmt.Sprintf("sum=%d included=%d err=nil", res.Sum, res.ChunkIncluded),
				"a line beyond the reader's limit must be reported as an error, never skipped silently")
		}
	case err != nil:
		r.OracleFail("window-reader-error", line, err.Error(), "a well-formed journal must be countable")
	case int(res.ChunkIncluded) != len(lens):
		r.OracleFail("reader-drops-long-line-silently", line, fmt.Sprintf("sum=%d included=%d err=nil (line lengths %v)", res.Sum, res.ChunkIncluded, lens),
			fmt.Sprintf("all %d chunks lie inside the window and must be merged; the reader stopped at a long line without reporting an error", len(lens)))
	default:
		d := float64(res.Sum) - float64(distinct)
		if d < 0 {
			d = -d
		}
		if d > 0.02*float64(distinct)+0.5 {
			r.OracleFail("window-merged-estimate-out-of-bound", line, fmt.Sprintf("sum=%d", res.Sum), fmt.Sprintf("merged estimate must be within 2%% of the %d distinct addresses", distinct))
		}
	}
}

// c19malformed: the reader on damaged journals must return (a result or an error), never panic.
func c19malformed(r *vh.Run, journal []byte) {
	rng := r.Rng
	if len(journal) == 0 {
		return
	}
	for i := 0; i < 6; i++ {
		b := append([]byte{}, journal...)
		switch i % 3 {
		case 0:
			b = b[:rng.Intn(len(b))]
		case 1:
			b[rng.Intn(len(b))] ^= byte(1 + rng.Intn(255))
		case 2:
			b = append(b, []byte("{\"recordingStart\":\"x\"}\n")...)
		}
		out := func() (s string) {
			defer func() {
				if p := recover(); p != nil {
					s = fmt.Sprint("panic: ", p)
				}
			}()
			res, err := NewClusterCounter(time.Unix(0, 0), time.Now().Add(time.Hour)).Count(bytes.NewReader(b))
			if err != nil {
				return "error"
			}
			return fmt.Sprintf("ok/%d", res.ChunkIncluded)
		}()
		cl := out
		if strings.HasPrefix(out, "ok/") {
			cl = "ok"
		}
		r.Case("reader/malformed/"+cl, fmt.Sprintf("mutation %d of a %d-byte journal", i%3, len(journal)), true)
		if strings.HasPrefix(out, "panic") {
			r.OracleFail("reader-panics-on-damaged-journal", fmt.Sprintf("%q", b), out, "a damaged journal must give an error, not a panic")
		}
	}
}

func TestVerifC19Cluster(t *testing.T) {
	r := vh.Start("C19")
	defer r.Finish()
	for i := 0; i < r.N(80, 1500); i++ {
		nops := r.Rng.Intn(40)
		if i%8 == 0 {
			nops = r.Rng.Intn(4)
		}
		journal, chunks, ok := c19runWriter(r, nops, 4+r.Rng.Intn(30))
		if !ok {
			continue
		}
		c19windows(r, "reader/written", journal, chunks, r.N(30, 100))
		if i%10 == 0 {
			c19malformed(r, journal)
		}
	}
	c19synthetic(r)
	c19large(r)
}
