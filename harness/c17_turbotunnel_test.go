//go:build verif

package turbotunnel

// C17 correspondence + oracle harness (virtual file in common/turbotunnel via -overlay).
//
//   part 1  clientMapInner with an explicit clock: generated (SendQueue | removeExpired | send | recv)
//           sequences; after every operation the exact heap layout, the address index, the lengths and
//           the closed queues are compared with the model, and checked against a plain reference map
//           (the oracle: consistency, heap order, kept-while-seen, removed-exactly-when-idle, closed).
//   part 2  QueuePacketConn through its API, one shared caller buffer that is overwritten after every
//           call (copy-on-enqueue), bounded queues filled past queueSize, close / closeWithError.
//   part 3  RedialPacketConn with scripted fake carriers (write fails first / read fails first / read
//           fails while a write is in flight), N redials, ended by a failing dial, by Close while
//           dialing, or by Close of a working carrier; goroutine profile filtered to the package.
//
// One sfdriver line = one whole sequence / script.

import (
	"bytes"
	"context"
	"errors"
	"fmt"
	"math/rand"
	"net"
	"os"
	"os/exec"
	"runtime"
	"sort"
	"strconv"
	"strings"
	"sync"
	"sync/atomic"
	"testing"
	"time"

	vh "git.torproject.org/pluggable-transports/snowflake.git/v2/common/zzverif"
)

type c17addr int

func (a c17addr) Network() string { return "c17" }
func (a c17addr) String() string  { return strconv.Itoa(int(a)) }

func c17int(i int) string {
	if i < 0 {
		return "n" + strconv.Itoa(-i)
	}
	return strconv.Itoa(i)
}

func c17min(a, b int) int {
	if a < b {
		return a
	}
	return b
}

func c17join(l []string, sep string) string {
	if len(l) == 0 {
		return "-"
	}
	return strings.Join(l, sep)
}

const c17deadline = 3 * time.Second

// ------------------------------------------------------------------------------------------------
// part 1: clientMapInner

var c17base = time.Unix(1700000000, 0)

func c17time(t int) time.Time   { return c17base.Add(time.Duration(t) * time.Millisecond) }
func c17untime(t time.Time) int { return int(t.Sub(c17base) / time.Millisecond) }

type c17ref struct {
	lastSeen int
	queue    [][]byte
	ch       chan []byte
}

// c17chanClosed reports whether an *empty* channel is closed (undetermined for non-empty ones).
func c17chanClosedAfterDrain(ch chan []byte) (closed bool, drained [][]byte) {
	for {
		select {
		case p, ok := <-ch:
			if !ok {
				return true, drained
			}
			drained = append(drained, p)
		default:
			return false, drained
		}
	}
}

func c17cmSnapshot(inner *clientMapInner, A int, out string, closedSoFar []string) string {
	var age []string
	for _, r := range inner.byAge {
		age = append(age, fmt.Sprintf("%d@%s#%d", int(r.Addr.(c17addr)), c17int(c17untime(r.LastSeen)), len(r.SendQueue)))
	}
	var idx []string
	for a := 0; a < A; a++ {
		if i, ok := inner.byAddr[c17addr(a)]; ok {
			idx = append(idx, fmt.Sprintf("%d>%d", a, i))
		}
	}
	return fmt.Sprintf("%s|%s|%s|%d|%s", out, c17join(age, ","), c17join(idx, ","), len(inner.byAddr), c17join(closedSoFar, ","))
}

// c17cmSequence runs one generated sequence on the real clientMapInner; returns the case line, the
// real reply, a class, and oracle failures.
func c17cmSequence(r *vh.Run, rng *rand.Rand) {
	A := 2 + rng.Intn(5)
	nops := 1 + rng.Intn(40)
	if rng.Intn(6) == 0 { // deeper heaps
		A = 8 + rng.Intn(9)
		nops = 30 + rng.Intn(60)
	}
	timeouts := []int{0, 1, 3, 5, 10, 10, 20}
	inner := &clientMapInner{byAge: make([]*clientRecord, 0), byAddr: make(map[net.Addr]int)}
	ref := map[int]*c17ref{}
	var toks, snaps, closedSoFar []string
	now := rng.Intn(5)
	nRemoved, nKept, nFix, nPush := 0, 0, 0, 0
	var fails [][3]string
	fail := func(key, real, detail string) { fails = append(fails, [3]string{key, real, detail}) }
	panicked := ""
	func() {
		defer func() {
			if x := recover(); x != nil {
				panicked = fmt.Sprint(x)
			}
		}()
		for i := 0; i < nops; i++ {
			switch rng.Intn(12) {
			case 0:
				now -= rng.Intn(4) // the clock is explicit: it may go backwards
			case 1, 2, 3:
			default:
				now += rng.Intn(6)
			}
			out := "."
			k := rng.Intn(20)
			a := rng.Intn(A)
			sendQ := func() chan []byte {
				if _, ok := ref[a]; ok {
					nFix++
				} else {
					nPush++
				}
				ch := inner.SendQueue(c17addr(a), c17time(now))
				if e, ok := ref[a]; ok {
					e.lastSeen = now
					if e.ch != ch {
						fail("clientmap-queue-replaced", fmt.Sprintf("addr %d", a), "SendQueue returned a different channel for a live record")
					}
				} else {
					ref[a] = &c17ref{lastSeen: now, ch: ch}
				}
				return ch
			}
			switch {
			case k < 9:
				toks = append(toks, fmt.Sprintf("S:%d:%s", a, c17int(now)))
				sendQ()
			case k < 13:
				p := []byte{byte(rng.Intn(256)), byte(i)}
				toks = append(toks, fmt.Sprintf("W:%d:%s:%s", a, c17int(now), vh.Hex(p)))
				ch := sendQ()
				select {
				case ch <- p:
					out = "sent"
					ref[a].queue = append(ref[a].queue, p)
				default:
					out = "full"
				}
			case k < 15:
				toks = append(toks, fmt.Sprintf("T:%d:%s", a, c17int(now)))
				ch := sendQ()
				select {
				case p := <-ch:
					out = "got:" + vh.Hex(p)
					if len(ref[a].queue) == 0 || !bytes.Equal(ref[a].queue[0], p) {
						fail("clientmap-queue-content", out, "received packet is not the oldest queued one")
					} else {
						ref[a].queue = ref[a].queue[1:]
					}
				default:
					out = "empty"
					if len(ref[a].queue) != 0 {
						fail("clientmap-queue-content", out, "queue contents lost while the client was seen")
					}
				}
			default:
				timeout := timeouts[rng.Intn(len(timeouts))]
				if rng.Intn(25) == 0 {
					timeout = -1
				}
				toks = append(toks, fmt.Sprintf("X:%s:%s", c17int(now), c17int(timeout)))
				inner.removeExpired(c17time(now), time.Duration(timeout)*time.Millisecond)
				// oracle: exactly the idle records are gone, their queues closed; the others kept with contents
				var gone []int
				for addr, e := range ref {
					_, present := inner.byAddr[c17addr(addr)]
					idle := now-e.lastSeen >= timeout
					switch {
					case idle && present:
						fail("clientmap-kept-expired", fmt.Sprintf("addr %d lastSeen %d now %d timeout %d", addr, e.lastSeen, now, timeout), "a record idle for the full timeout survived removeExpired")
					case !idle && !present:
						fail("clientmap-removed-live", fmt.Sprintf("addr %d lastSeen %d now %d timeout %d", addr, e.lastSeen, now, timeout), "a record seen within the timeout was removed")
					}
					if !present {
						gone = append(gone, addr)
						closed, drained := c17chanClosedAfterDrain(e.ch)
						if !closed {
							fail("clientmap-queue-not-closed", fmt.Sprintf("addr %d", addr), "queue of a removed record is not closed")
						}
						if len(drained) != len(e.queue) {
							fail("clientmap-queue-content", fmt.Sprintf("addr %d", addr), "closed queue does not hold the packets that were queued")
						}
						nRemoved++
					} else {
						nKept++
					}
				}
				sort.Ints(gone)
				for _, g := range gone {
					delete(ref, g)
					closedSoFar = append(closedSoFar, strconv.Itoa(g))
				}
			}
			// oracle after every op: consistency, heap order, reference agreement
			if len(inner.byAge) != len(inner.byAddr) || len(inner.byAge) != len(ref) {
				fail("clientmap-inconsistent", fmt.Sprintf("len(byAge)=%d len(byAddr)=%d ref=%d", len(inner.byAge), len(inner.byAddr), len(ref)), "byAge, byAddr and the reference disagree on the number of records")
			}
			for j, rec := range inner.byAge {
				if idx, ok := inner.byAddr[rec.Addr]; !ok || idx != j {
					fail("clientmap-inconsistent", fmt.Sprintf("byAge[%d].Addr=%v byAddr=%d,%v", j, rec.Addr, idx, ok), "byAddr does not map a record's address to its position")
				}
				if j > 0 && inner.byAge[(j-1)/2].LastSeen.After(rec.LastSeen) {
					fail("clientmap-heap-order", fmt.Sprintf("position %d", j), "parent is younger than child")
				}
				e, ok := ref[int(rec.Addr.(c17addr))]
				if !ok {
					fail("clientmap-inconsistent", fmt.Sprintf("addr %v", rec.Addr), "record not in the reference")
					continue
				}
				if c17untime(rec.LastSeen) != e.lastSeen || len(rec.SendQueue) != len(e.queue) || rec.SendQueue != e.ch {
					fail("clientmap-record-changed", fmt.Sprintf("addr %v lastSeen %d/%d qlen %d/%d", rec.Addr, c17untime(rec.LastSeen), e.lastSeen, len(rec.SendQueue), len(e.queue)), "record differs from the reference (last-seen, queue length or queue identity)")
				}
			}
			snaps = append(snaps, c17cmSnapshot(inner, A, out, closedSoFar))
		}
	}()
	line := fmt.Sprintf("c17 cm %d %s", A, strings.Join(toks, ","))
	class := fmt.Sprintf("cm/removed=%v/kept=%v/fix=%v/push=%v", nRemoved > 0, nKept > 0, nFix > 0, nPush > 0)
	if panicked != "" {
		class = "cm/panic"
		snaps = append(snaps, "panic")
		r.OracleFail("clientmap-panic", line, panicked, "clientMapInner panicked")
	}
	r.Case(class, line, nops > 1)
	real := strings.Join(snaps, ";")
	model := r.Model(line)
	// the model logs closed queues in pop order; the implementation's order of closing inside one sweep is
	// not observable from outside (the heap layout after every operation, which determines it, is
	// compared), so the batch of each sweep is sorted on both sides
	r.Compare("clientmap", line, c17canonClosed(real), c17canonClosed(model))
	for _, f := range fails {
		r.OracleFail(f[0], line, f[1], f[2])
	}
}

// c17canonClosed sorts, in the closed-log column of every snapshot, the entries added by that snapshot.
func c17canonClosed(reply string) string {
	parts := strings.Split(reply, ";")
	var canon []string
	prevLen := 0
	for i, p := range parts {
		cols := strings.Split(p, "|")
		if len(cols) < 5 {
			continue
		}
		var l []string
		if cols[4] != "-" {
			l = strings.Split(cols[4], ",")
		}
		if len(l) >= prevLen {
			batch := append([]string{}, l[prevLen:]...)
			sort.Strings(batch)
			canon = append(canon, batch...)
			prevLen = len(l)
			cols[4] = c17join(canon, ",")
		}
		parts[i] = strings.Join(cols, "|")
	}
	return strings.Join(parts, ";")
}

// ------------------------------------------------------------------------------------------------
// part 2: QueuePacketConn

type c17readResult struct {
	n    int
	addr net.Addr
	err  error
	data []byte
}

func c17errClass(err error) string {
	if err == nil {
		return "nil"
	}
	var oe *net.OpError
	inner := err
	if errors.As(err, &oe) {
		inner = oe.Err
	}
	if inner == errClosedPacketConn || inner.Error() == "operation on closed connection" {
		return "err:closed"
	}
	if strings.HasPrefix(inner.Error(), "custom") {
		return "err:" + inner.Error()
	}
	if strings.HasPrefix(inner.Error(), "c17dial") {
		return "err:dial"
	}
	return "err:other:" + inner.Error()
}

func c17qSequence(r *vh.Run, rng *rand.Rand, fill bool) {
	c := NewQueuePacketConn(c17addr(99), time.Hour)
	A := 1 + rng.Intn(4)
	shared := make([]byte, 64) // the caller's one buffer, reused for every call
	type tagged struct {
		p []byte
		a int
	}
	var refIn []tagged
	refOut := map[int][][]byte{}
	refClosed, refErr := false, "err:closed"
	var toks, outs []string
	var fails [][3]string
	fail := func(key, real, detail string) { fails = append(fails, [3]string{key, real, detail}) }
	nBlock, nDrop, nAfterClose := 0, 0, 0
	payload := func(i int) []byte {
		n := rng.Intn(6)
		if rng.Intn(10) == 0 {
			n = 20 + rng.Intn(40)
		}
		p := shared[:n]
		for j := range p {
			p[j] = byte(rng.Intn(256))
		}
		if n > 0 {
			p[0] = byte(i)
		}
		return p
	}
	scribble := func() {
		for j := range shared {
			shared[j] = 0xEE
		}
	}
	doRead := func(buflen int) c17readResult {
		done := make(chan c17readResult, 1)
		buf := make([]byte, buflen)
		go func() {
			defer func() {
				if x := recover(); x != nil {
					done <- c17readResult{n: -3, err: fmt.Errorf("panic: %v", x)}
				}
			}()
			n, addr, err := c.ReadFrom(buf)
			done <- c17readResult{n, addr, err, append([]byte{}, buf[:n]...)}
		}()
		if len(refIn) == 0 && !refClosed {
			// the reference says: nothing queued, open => ReadFrom must wait.  Confirm, then release it
			// with a sentinel packet (state unchanged afterwards).
			select {
			case res := <-done:
				fail("queue-read-returned-without-packet", fmt.Sprint(res), "ReadFrom returned although nothing was queued and the connection is open")
				return res
			case <-time.After(15 * time.Millisecond):
			}
			c.QueueIncoming([]byte{0xFE, 0xED}, c17addr(77))
			select {
			case res := <-done:
				if res.err != nil || !bytes.Equal(res.data, []byte{0xFE, 0xED}[:c17min(buflen, 2)]) {
					fail("queue-fifo-violated", fmt.Sprint(res), "a waiting ReadFrom was not completed by the next incoming packet")
				}
				return c17readResult{n: -1}
			case <-time.After(c17deadline):
				fail("queue-op-blocked", "ReadFrom", "a waiting ReadFrom was not released by QueueIncoming")
				return c17readResult{n: -2}
			}
		}
		select {
		case res := <-done:
			return res
		case <-time.After(c17deadline):
			return c17readResult{n: -2}
		}
	}
	timed := func(name string, f func()) bool {
		done := make(chan interface{}, 1)
		go func() {
			defer func() { done <- recover() }()
			f()
		}()
		select {
		case x := <-done:
			if x != nil {
				panic(x) // re-raise in the sequence's goroutine, where it is recorded as outcome "panic"
			}
			return true
		case <-time.After(c17deadline):
			fail("queue-op-blocked", name, "operation did not return")
			return false
		}
	}
	var script []int // op kinds
	nops := 1 + rng.Intn(40)
	if fill {
		// fill one direction past queueSize, then drain part of it
		dir := rng.Intn(2)
		for i := 0; i < queueSize+3; i++ {
			script = append(script, dir) // 0 = I, 1 = W
		}
		for i := 0; i < 5; i++ {
			script = append(script, 2+dir) // 2 = R, 3 = O
		}
		script = append(script, dir, dir, dir)
		A = 1
	} else {
		closeAt := -1
		if rng.Intn(3) == 0 {
			closeAt = rng.Intn(nops)
		}
		for i := 0; i < nops; i++ {
			if i == closeAt {
				script = append(script, 4)
				continue
			}
			k := rng.Intn(20)
			switch {
			case k < 6:
				script = append(script, 0)
			case k < 11:
				script = append(script, 1)
			case k < 15:
				script = append(script, 2)
			case k < 19:
				script = append(script, 3)
			default:
				script = append(script, 4)
			}
		}
	}
	panicked := ""
	func() {
		defer func() {
			if x := recover(); x != nil {
				panicked = fmt.Sprint(x)
			}
		}()
		for i, kind := range script {
			a := rng.Intn(A)
			switch kind {
			case 0: // QueueIncoming
				p := payload(i)
				val := append([]byte{}, p...)
				toks = append(toks, fmt.Sprintf("I:%s:%d", vh.Hex(val), a))
				if !timed("QueueIncoming", func() { c.QueueIncoming(p, c17addr(a)) }) {
					outs = append(outs, "blocked")
					continue
				}
				scribble()
				if !refClosed {
					if len(refIn) < queueSize {
						refIn = append(refIn, tagged{val, a})
					} else {
						nDrop++
					}
				} else {
					nAfterClose++
				}
				outs = append(outs, ".")
			case 1: // WriteTo
				p := payload(i)
				val := append([]byte{}, p...)
				toks = append(toks, fmt.Sprintf("W:%s:%d", vh.Hex(val), a))
				var n int
				var err error
				if !timed("WriteTo", func() { n, err = c.WriteTo(p, c17addr(a)) }) {
					outs = append(outs, "blocked")
					continue
				}
				scribble()
				if refClosed {
					nAfterClose++
					outs = append(outs, c17errClass(err))
					if err == nil {
						fail("queue-op-succeeds-after-close", "WriteTo", "WriteTo succeeded after Close")
					} else if c17errClass(err) != refErr {
						fail("queue-close-not-once", c17errClass(err), "error after close is not the first stored error "+refErr)
					}
				} else {
					if err != nil || n != len(val) {
						fail("queue-write-result", fmt.Sprintf("n=%d err=%v", n, err), "WriteTo on an open connection must report len(p), nil (dropping when full)")
					}
					if len(refOut[a]) < queueSize {
						refOut[a] = append(refOut[a], val)
					} else {
						nDrop++
					}
					if err != nil {
						outs = append(outs, c17errClass(err))
					} else {
						outs = append(outs, fmt.Sprintf("ok:%d", n))
					}
				}
			case 2: // ReadFrom
				buflen := []int{1500, 1500, 2, 0, 64}[rng.Intn(5)]
				toks = append(toks, fmt.Sprintf("R:%d", buflen))
				res := doRead(buflen)
				switch {
				case res.n == -3:
					panic(res.err.Error())
				case res.n == -1:
					nBlock++
					outs = append(outs, "block")
				case res.n == -2:
					outs = append(outs, "blocked")
					fail("queue-op-blocked", "ReadFrom", "ReadFrom did not return although a packet is queued or the connection is closed")
				case res.err != nil:
					outs = append(outs, c17errClass(res.err))
					if !refClosed {
						fail("queue-error-before-close", c17errClass(res.err), "ReadFrom failed on an open connection")
					} else if c17errClass(res.err) != refErr {
						fail("queue-close-not-once", c17errClass(res.err), "error after close is not the first stored error "+refErr)
					}
				default:
					outs = append(outs, fmt.Sprintf("ok:%s:%s", vh.Hex(res.data), res.addr.String()))
					if refClosed {
						fail("queue-op-succeeds-after-close", "ReadFrom", "ReadFrom succeeded after Close")
					} else if len(refIn) == 0 {
						fail("queue-fifo-violated", "ReadFrom", "packet delivered that was never queued")
					} else {
						want := refIn[0]
						refIn = refIn[1:]
						wantData := want.p
						if len(wantData) > buflen {
							wantData = wantData[:buflen]
						}
						if !bytes.Equal(res.data, wantData) || res.addr.String() != strconv.Itoa(want.a) {
							key := "queue-fifo-violated"
							if bytes.Contains(res.data, []byte{0xEE}) && !bytes.Contains(wantData, []byte{0xEE}) {
								key = "queue-aliasing"
							}
							fail(key, fmt.Sprintf("got %x from %s want %x from %d", res.data, res.addr, wantData, want.a), "ReadFrom did not deliver the oldest accepted packet with its call-time contents")
						}
					}
				}
			case 3: // OutgoingQueue + non-blocking receive
				toks = append(toks, fmt.Sprintf("O:%d", a))
				var q <-chan []byte
				if !timed("OutgoingQueue", func() { q = c.OutgoingQueue(c17addr(a)) }) {
					outs = append(outs, "blocked")
					continue
				}
				select {
				case p := <-q:
					outs = append(outs, "some:"+vh.Hex(p))
					if len(refOut[a]) == 0 {
						fail("queue-fifo-violated", "OutgoingQueue", "packet taken that was never written")
					} else {
						want := refOut[a][0]
						refOut[a] = refOut[a][1:]
						if !bytes.Equal(p, want) {
							key := "queue-fifo-violated"
							if bytes.Contains(p, []byte{0xEE}) && !bytes.Contains(want, []byte{0xEE}) {
								key = "queue-aliasing"
							}
							fail(key, fmt.Sprintf("got %x want %x", p, want), "OutgoingQueue did not deliver the oldest written packet with its call-time contents")
						}
					}
					for j := range p { // the consumer may do what it wants with the slice
						p[j] = 0xDD
					}
				default:
					outs = append(outs, "none")
					if len(refOut[a]) != 0 {
						fail("queue-fifo-violated", "OutgoingQueue", "written packets are missing from the outgoing queue")
					}
				}
			case 4: // Close / closeWithError
				var err error
				custom := rng.Intn(2) == 0
				if custom {
					e := 1 + rng.Intn(5)
					toks = append(toks, fmt.Sprintf("C:%d", e))
					timed("closeWithError", func() { err = c.closeWithError(fmt.Errorf("custom%d", e)) })
					if !refClosed {
						refErr = fmt.Sprintf("err:custom%d", e)
					}
				} else {
					toks = append(toks, "C:-")
					timed("Close", func() { err = c.Close() })
					if !refClosed {
						refErr = "err:closed"
					}
				}
				outs = append(outs, c17errClass(err))
				if !refClosed && err != nil {
					fail("queue-close-not-once", c17errClass(err), "the first Close must return nil")
				}
				if refClosed && c17errClass(err) != refErr {
					fail("queue-close-not-once", c17errClass(err), "a later Close must return the first stored error "+refErr)
				}
				refClosed = true
			}
		}
	}()
	line := "c17 q " + strings.Join(toks, ",")
	class := fmt.Sprintf("q/fill=%v/closed=%v/block=%v/drop=%v/afterclose=%v", fill, refClosed, nBlock > 0, nDrop > 0, nAfterClose > 0)
	if panicked != "" {
		class = "q/panic"
		outs = append(outs, "panic")
		r.OracleFail("queue-panic", line, panicked, "QueuePacketConn panicked")
	}
	r.Case(class, line, len(script) > 1)
	r.Compare("queueconn", line, strings.Join(outs, ";"), r.Model(line))
	for _, f := range fails {
		r.OracleFail(f[0], line, f[1], f[2])
	}
}

// ------------------------------------------------------------------------------------------------
// part 3: RedialPacketConn with scripted fake carriers

var c17errRead = errors.New("c17 carrier read failed")
var c17errWrite = errors.New("c17 carrier write failed")
var c17errDial = errors.New("c17dial failed")

type c17env struct {
	mu       sync.Mutex
	modes    string
	end      byte
	dials    int
	open     int
	maxOpen  int
	closedN  int
	carriers chan *c17carrier
	dialing  chan struct{} // signalled when the dial after the script is entered
	release  chan struct{} // end C: closed by the harness to let that dial fail
}

type c17carrier struct {
	env       *c17env
	idx       int
	mode      byte
	closed    chan struct{}
	closeOnce sync.Once
	failRead  chan struct{}
	pkts      chan []byte
	inWrite   chan struct{}
	writeGate chan struct{}
	wrote     chan []byte
	wroteSig  chan struct{}
	reading   chan struct{} // closed when the reader goroutine first enters ReadFrom
	readOnce  sync.Once
}

func (c *c17carrier) ReadFrom(p []byte) (int, net.Addr, error) {
	c.readOnce.Do(func() { close(c.reading) })
	select {
	case b := <-c.pkts:
		return copy(p, b), c17addr(1000 + c.idx), nil
	case <-c.failRead:
		return 0, nil, c17errRead
	case <-c.closed:
		return 0, nil, c17errRead
	}
}

func (c *c17carrier) WriteTo(p []byte, a net.Addr) (int, error) {
	select {
	case <-c.closed:
		return 0, c17errWrite
	default:
	}
	switch c.mode {
	case 'W':
		return 0, c17errWrite
	case 'B':
		c.inWrite <- struct{}{}
		<-c.writeGate
		return 0, c17errWrite
	}
	select {
	case c.wrote <- append([]byte{}, p...):
	default:
	}
	select {
	case c.wroteSig <- struct{}{}:
	default:
	}
	return len(p), nil
}

func (c *c17carrier) Close() error {
	c.closeOnce.Do(func() {
		c.env.mu.Lock()
		c.env.open--
		c.env.closedN++
		c.env.mu.Unlock()
		close(c.closed)
	})
	return nil
}
func (c *c17carrier) LocalAddr() net.Addr              { return c17addr(0) }
func (c *c17carrier) SetDeadline(time.Time) error      { return nil }
func (c *c17carrier) SetReadDeadline(time.Time) error  { return nil }
func (c *c17carrier) SetWriteDeadline(time.Time) error { return nil }

func (e *c17env) dial(ctx context.Context) (net.PacketConn, error) {
	e.mu.Lock()
	i := e.dials
	n := len(e.modes)
	if e.end == 'L' {
		n++
	}
	if i < n {
		mode := byte('L')
		if i < len(e.modes) {
			mode = e.modes[i]
		}
		e.dials++
		e.open++
		if e.open > e.maxOpen {
			e.maxOpen = e.open
		}
		e.mu.Unlock()
		car := &c17carrier{env: e, idx: i, mode: mode, closed: make(chan struct{}), failRead: make(chan struct{}),
			pkts: make(chan []byte, 4), inWrite: make(chan struct{}, 4), writeGate: make(chan struct{}), wrote: make(chan []byte, 4), wroteSig: make(chan struct{}, 4), reading: make(chan struct{})}
		e.carriers <- car
		return car, nil
	}
	e.mu.Unlock()
	select {
	case e.dialing <- struct{}{}:
	default:
	}
	if e.end == 'C' {
		<-e.release
	}
	if e.end == 'S' {
		// the dial is in flight while Close is called and then SUCCEEDS: the carrier it returns was obtained by
		// the connection and must be closed by it
		<-e.release
		e.mu.Lock()
		e.dials++
		e.open++
		if e.open > e.maxOpen {
			e.maxOpen = e.open
		}
		e.mu.Unlock()
		car := &c17carrier{env: e, idx: i, mode: 'L', closed: make(chan struct{}), failRead: make(chan struct{}),
			pkts: make(chan []byte, 4), inWrite: make(chan struct{}, 4), writeGate: make(chan struct{}), wrote: make(chan []byte, 4), wroteSig: make(chan struct{}, 4), reading: make(chan struct{})}
		e.carriers <- car
		return car, nil
	}
	return nil, c17errDial
}

type c17gcount struct{ readers, writers, loops int }

func c17goroutines() c17gcount {
	buf := make([]byte, 1<<20)
	for {
		n := runtime.Stack(buf, true)
		if n < len(buf) {
			buf = buf[:n]
			break
		}
		buf = make([]byte, 2*len(buf))
	}
	var g c17gcount
	for _, block := range strings.Split(string(buf), "\n\n") {
		switch {
		case strings.Contains(block, "turbotunnel.(*RedialPacketConn).exchange.func1("):
			g.readers++
		case strings.Contains(block, "turbotunnel.(*RedialPacketConn).exchange.func2("):
			g.writers++
		case strings.Contains(block, "turbotunnel.(*RedialPacketConn).dialLoop("):
			g.loops++
		}
	}
	return g
}

// c17quiesce samples the goroutine profile until it has been stable for 60 ms (at most 3 s).
func c17quiesce() c17gcount {
	last := c17goroutines()
	stable := 0
	for i := 0; i < 600 && stable < 12; i++ {
		time.Sleep(5 * time.Millisecond)
		g := c17goroutines()
		if g == last {
			stable++
		} else {
			stable = 0
			last = g
		}
	}
	return last
}

func c17wait(ch <-chan struct{}) bool {
	select {
	case <-ch:
		return true
	case <-time.After(c17deadline):
		return false
	}
}

// c17redialScript runs one script on the real RedialPacketConn; returns the canonical outcome line.
func c17redialScript(modes string, end byte) (outcome string, stuck string) {
	defer func() {
		if x := recover(); x != nil {
			outcome, stuck = "", fmt.Sprintf("panic: %v", x)
		}
	}()
	env := &c17env{modes: modes, end: end, carriers: make(chan *c17carrier, 16), dialing: make(chan struct{}, 1), release: make(chan struct{})}
	base := c17quiesce()
	c := NewRedialPacketConn(c17addr(1), c17addr(2), env.dial)
	errBefore := false
	// nextCarrier waits until the next carrier has been dialed and its reader goroutine sits in
	// ReadFrom (so that the order "which side fails first" is the scripted one, not a start-up race:
	// a reader that has not yet passed its first select can still pick up the writer's error).
	nextCarrier := func() *c17carrier {
		select {
		case car := <-env.carriers:
			if !c17wait(car.reading) {
				return nil
			}
			return car
		case <-time.After(c17deadline):
			return nil
		}
	}
	readOne := func() ([]byte, error, bool) {
		type rr struct {
			p   []byte
			err error
		}
		done := make(chan rr, 1)
		go func() {
			buf := make([]byte, 100)
			n, _, err := c.ReadFrom(buf)
			done <- rr{buf[:n], err}
		}()
		select {
		case x := <-done:
			return x.p, x.err, true
		case <-time.After(c17deadline):
			return nil, nil, false
		}
	}
	// sendUntil writes a packet and waits for its effect; a goroutine of an *earlier* carrier that has
	// not yet noticed its carrier's end may legitimately take the packet from the shared send queue
	// (packets may be dropped), so the packet is sent again if nothing happens.
	sendUntil := func(pkt []byte, effect <-chan struct{}) bool {
		for attempt := 0; attempt < 8; attempt++ {
			if _, err := c.WriteTo(pkt, c17addr(2)); err != nil {
				errBefore = true
			}
			select {
			case <-effect:
				return true
			case <-time.After(400 * time.Millisecond):
			}
		}
		return false
	}
	for k := 0; k < len(modes); k++ {
		car := nextCarrier()
		if car == nil {
			select {
			case <-c.closed:
				return "", fmt.Sprintf("carrier %d was never dialed: the connection was closed although no dial failed and Close was not called", k)
			default:
			}
			return "", fmt.Sprintf("carrier %d was never dialed", k)
		}
		switch modes[k] {
		case 'W':
			if !sendUntil([]byte{1, byte(k)}, car.closed) {
				return "", fmt.Sprintf("carrier %d was not closed after its write failure", k)
			}
		case 'R':
			car.pkts <- []byte{7, byte(k)}
			p, err, ok := readOne()
			if !ok {
				return "", "ReadFrom did not deliver the carrier's packet"
			}
			if err != nil || !bytes.Equal(p, []byte{7, byte(k)}) {
				errBefore = true
			}
			close(car.failRead)
		case 'B':
			if !sendUntil([]byte{2, byte(k)}, car.inWrite) {
				return "", "writer never called WriteTo on the carrier"
			}
			close(car.failRead)
		}
		if !c17wait(car.closed) {
			return "", fmt.Sprintf("carrier %d was not closed after its failure", k)
		}
		if modes[k] == 'B' {
			close(car.writeGate)
		}
	}
	switch end {
	case 'F':
		if !c17wait(c.closed) {
			return "", "connection not closed after the failing dial"
		}
	case 'C':
		if !c17wait(env.dialing) {
			return "", "dialLoop did not dial again"
		}
		if err := c.Close(); err != nil {
			errBefore = true
		}
		close(env.release)
	case 'S':
		if !c17wait(env.dialing) {
			return "", "dialLoop did not dial again"
		}
		if err := c.Close(); err != nil {
			errBefore = true
		}
		close(env.release)
		select {
		case car := <-env.carriers:
			if !c17wait(car.closed) {
				return "", "the carrier returned by a dial that was in flight during Close was not closed"
			}
		case <-time.After(c17deadline):
			return "", "the dial in flight during Close did not return"
		}
	case 'L':
		car := nextCarrier()
		if car == nil {
			return "", "last carrier was never dialed"
		}
		if !sendUntil([]byte{3}, car.wroteSig) {
			return "", "packet was not written to the working carrier"
		}
		car.pkts <- []byte{9}
		p, err, ok := readOne()
		if !ok {
			return "", "ReadFrom did not deliver the working carrier's packet"
		}
		if err != nil || !bytes.Equal(p, []byte{9}) {
			errBefore = true
		}
		if err := c.Close(); err != nil {
			errBefore = true
		}
		if !c17wait(car.closed) {
			return "", "working carrier was not closed after Close"
		}
	}
	g := c17quiesce()
	_, errW := c.WriteTo([]byte{4}, c17addr(2))
	_, errR, okR := readOne()
	if !okR {
		return "", "ReadFrom blocks after close"
	}
	after := errW != nil && errR != nil
	why := "none"
	if after {
		why = strings.TrimPrefix(c17errClass(errW), "err:")
	}
	env.mu.Lock()
	defer env.mu.Unlock()
	return fmt.Sprintf("dials=%d closed=%d maxopen=%d errbefore=%v errafter=%v:%s loopdone=%v readers=%d writers=%d",
		env.dials, env.closedN, env.maxOpen, errBefore, after, why, g.loops-base.loops == 0, g.readers-base.readers, g.writers-base.writers), ""
}

func c17field(outcome, name string) string {
	for _, f := range strings.Fields(outcome) {
		if strings.HasPrefix(f, name+"=") {
			return strings.TrimPrefix(f, name+"=")
		}
	}
	return ""
}

var c17stuck int

func c17redialCase(r *vh.Run, modes string, end byte) {
	if c17stuck >= 4 {
		r.Skip(fmt.Sprintf("redial script %q %c skipped: four scripts already got stuck (each costs several deadlines)", modes, end))
		return
	}
	m := modes
	if m == "" {
		m = "-"
	}
	line := fmt.Sprintf("c17 redial %s %c", m, end)
	oracleOnly := false // every end mode, also 'S' (Close while a dial is in flight that then succeeds), is predicted by the model
	model := ""
	if !oracleOnly {
		model = r.Model(line)
	}
	real, stuck := c17redialScript(modes, end)
	if oracleOnly {
		model = real
		if stuck != "" {
			model = "stuck: " + stuck
		}
	}
	if stuck == "" && real != model {
		// timing-dependent observation: run the script once more before believing a disagreement
		time.Sleep(300 * time.Millisecond)
		real, stuck = c17redialScript(modes, end)
	}
	class := fmt.Sprintf("redial/n=%d/end=%c/W=%v/R=%v/B=%v", len(modes), end, strings.Contains(modes, "W"), strings.Contains(modes, "R"), strings.Contains(modes, "B"))
	r.Case(class, line, true)
	if stuck != "" {
		key := "redial-stuck"
		switch {
		case strings.Contains(stuck, "not closed"):
			key = "redial-carrier-not-closed"
		case strings.Contains(stuck, "the connection was closed although"):
			key = "redial-error-surfaced"
		case strings.HasPrefix(stuck, "panic"):
			key = "redial-panic"
		case strings.Contains(stuck, "blocks after close"):
			key = "redial-no-error-after-close"
		}
		c17stuck++
		r.OracleFail(key, line, stuck, "the redial loop did not make the progress the script waits for")
		r.Compare("redial", line, "stuck: "+stuck, model)
		return
	}
	r.Compare("redial", line, real, model)
	// the property itself, on the real code
	if c17field(real, "readers") != "0" || c17field(real, "writers") != "0" {
		r.OracleFail("redial-goroutine-retained", line, real,
			"after every carrier was closed and the connection shut down, reader/writer goroutines of exchange() are still alive (blocked sending on an error channel nobody receives from)")
	}
	if c17field(real, "loopdone") != "true" {
		r.OracleFail("redial-dialloop-retained", line, real, "dialLoop did not return after Close / failed dial")
	}
	if c17field(real, "errbefore") != "false" {
		r.OracleFail("redial-error-surfaced", line, real, "ReadFrom/WriteTo/first Close reported an error although the connection was neither closed nor had a dial failed")
	}
	if c17field(real, "dials") != c17field(real, "closed") {
		r.OracleFail("redial-carrier-not-closed", line, real, "a carrier obtained from dialContext was never closed")
	}
	if mo := c17field(real, "maxopen"); mo != "0" && mo != "1" {
		r.OracleFail("redial-two-active-carriers", line, real, "more than one carrier was open at the same time")
	}
	if !strings.HasPrefix(c17field(real, "errafter"), "true:") {
		r.OracleFail("redial-no-error-after-close", line, real, "ReadFrom/WriteTo succeed after Close / failed dial")
	}
}

// ------------------------------------------------------------------------------------------------

// c17RealClock: the exported ClientMap with its real clock and periodic sweep.  A client seen just now
// (even if its SendQueue call had to wait for the map lock) keeps its queue and contents until it has
// been idle for the full timeout; an idle one is discarded and closed by the next sweep (within 1.5
// timeouts, plus slack).  Several maps run in parallel with small timeouts.
func c17RealClock(r *vh.Run) {
	type res struct{ desc, bad string }
	out := make(chan res, 8)
	run := func(timeout time.Duration, contended bool) {
		desc := fmt.Sprintf("ClientMap timeout %v contended=%v", timeout, contended)
		m := NewClientMap(timeout)
		addr := c17addr(7)
		var q chan []byte
		if contended {
			// a SendQueue call that waits for the lock for longer than the timeout
			m.lock.Lock()
			got := make(chan chan []byte, 1)
			go func() { got <- m.SendQueue(addr) }()
			time.Sleep(timeout + timeout/10)
			m.lock.Unlock()
			q = <-got
		} else {
			q = m.SendQueue(addr)
		}
		seen := time.Now()
		q <- []byte("kept")
		// well inside the timeout: still there, same queue, contents kept
		time.Sleep(timeout * 3 / 4)
		m.lock.Lock()
		_, present := m.inner.byAddr[addr]
		m.lock.Unlock()
		if !present {
			out <- res{desc, fmt.Sprintf("record discarded after only %v idle", time.Since(seen))}
			return
		}
		select {
		case p, ok := <-q:
			if !ok || string(p) != "kept" {
				out <- res{desc, "queue closed or contents lost while the client was seen within the timeout"}
				return
			}
		default:
			out <- res{desc, "queued packet lost while the client was seen within the timeout"}
			return
		}
		// idle from `seen` on (draining the queue above is not a SendQueue call): gone by 1.5 timeouts + slack
		time.Sleep(time.Until(seen.Add(timeout*3/2 + timeout/2)))
		m.lock.Lock()
		_, present = m.inner.byAddr[addr]
		m.lock.Unlock()
		if present {
			out <- res{desc, fmt.Sprintf("record still present %v after it was last seen", time.Since(seen))}
			return
		}
		if _, ok := <-q; ok {
			out <- res{desc, "queue of a discarded client not closed"}
			return
		}
		out <- res{desc, ""}
	}
	n := 0
	for _, to := range []time.Duration{400 * time.Millisecond, 700 * time.Millisecond} {
		for _, c := range []bool{false, true} {
			n++
			go run(to, c)
		}
	}
	for i := 0; i < n; i++ {
		x := <-out
		r.Case("clientmap-realclock", x.desc, true)
		if x.bad != "" {
			key := "clientmap-realclock-retention"
			if strings.Contains(x.bad, "discarded after only") || strings.Contains(x.bad, "lost") || strings.Contains(x.bad, "closed or") {
				key = "clientmap-discarded-before-full-timeout"
			}
			r.OracleFail(key, x.desc, x.bad, "a client's queue is kept while it is seen within the timeout, never discarded before a full timeout of idleness, and discarded and closed by the next sweep after that")
		}
	}
}

// c17AfterClose: the retention clauses do not end with Close of the queue connection — a queue held by a carrier
// goroutine when the connection is closed, and one obtained afterwards, are still discarded and closed by the
// sweep after their timeout (the carrier goroutines end on that).
func c17AfterClose(r *vh.Run) {
	timeout := 300 * time.Millisecond
	c := NewQueuePacketConn(c17addr(1), timeout)
	before := c.OutgoingQueue(c17addr(7))
	c.Close()
	after := c.OutgoingQueue(c17addr(8))
	t0 := time.Now()
	desc := fmt.Sprintf("QueuePacketConn timeout %v: queue obtained before Close, queue obtained after Close, no further use", timeout)
	r.Case("clientmap-realclock/after-close", desc, true)
	deadline := time.After(timeout*3/2 + timeout)
	for name, q := range map[string]<-chan []byte{"before": before, "after": after} {
		select {
		case _, ok := <-q:
			if ok {
				r.OracleFail("clientmap-realclock-retention", desc, "queue obtained "+name+" Close delivered a packet nobody sent", "")
			}
		case <-deadline:
			r.OracleFail("clientmap-realclock-retention", desc, fmt.Sprintf("queue obtained %s Close still open %v after it was last seen", name, time.Since(t0).Round(10*time.Millisecond)),
				"an idle client's queue is discarded and closed by the next sweep after its timeout, also after the connection was closed")
			return
		}
	}
}

// c17ManyExpire: populations far larger than the generated sequences use — every record that has been idle for the
// timeout is gone after one sweep, and its queue closed, however many expire together.
func c17ManyExpire(r *vh.Run) {
	for _, n := range []int{1, 17, 300, 700, 3000} {
		inner := &clientMapInner{byAge: make([]*clientRecord, 0), byAddr: make(map[net.Addr]int)}
		t0 := c17time(0)
		var qs []chan []byte
		for i := 0; i < n; i++ {
			qs = append(qs, inner.SendQueue(c17addr(i+1), t0.Add(time.Duration(i%50)*time.Millisecond)))
		}
		keep := inner.SendQueue(c17addr(n+1), t0.Add(900*time.Millisecond))
		inner.removeExpired(t0.Add(1100*time.Millisecond), time.Second)
		left := len(inner.byAge) - 1
		open := 0
		for _, q := range qs {
			select {
			case _, ok := <-q:
				if ok {
					open++
				}
			default:
				open++
			}
		}
		desc := fmt.Sprintf("%d clients last seen at 0..49 ms and one at 900 ms, timeout 1 s, one sweep at 1100 ms", n)
		r.Case(fmt.Sprintf("cm/many-expire/n=%d", n), desc, true)
		if left != 0 || open != 0 {
			r.OracleFail("clientmap-expired-record-kept", desc, fmt.Sprintf("%d expired records left in the map, %d of their queues still open", left, open),
				"every record idle for the full timeout is discarded and its queue closed at the next sweep")
		}
		select {
		case _, ok := <-keep:
			if !ok {
				r.OracleFail("clientmap-discarded-before-full-timeout", desc, "the record seen 200 ms before the sweep was discarded", "")
			}
		default:
		}
	}
}

// TestC17ChildWriteVsSweep runs in a child process with GOMAXPROCS=2: a queue connection with a very short
// client timeout (so that the periodic sweep expires and closes client queues all the time) while many
// goroutines keep writing to a few client addresses - kcp's output path on a busy server whose writers get
// descheduled between looking up the client's queue and sending on it. Every WriteTo must return normally
// (the packet queued or dropped); the parent reports a child that died (e.g. "send on closed channel").
func TestC17ChildWriteVsSweep(t *testing.T) {
	if os.Getenv("VERIF_C17_CHILD") != "1" {
		t.Skip("helper of TestVerifC17")
	}
	c := NewQueuePacketConn(c17addr(1), 50*time.Microsecond)
	defer c.Close()
	stop := time.Now().Add(2500 * time.Millisecond)
	var wg sync.WaitGroup
	var n int64
	for g := 0; g < 200; g++ {
		wg.Add(1)
		go func(g int) {
			defer wg.Done()
			for time.Now().Before(stop) {
				c.WriteTo([]byte{byte(g)}, c17addr(10+g%3))
				atomic.AddInt64(&n, 1)
				if g%4 == 0 {
					time.Sleep(time.Duration(g) * 50 * time.Microsecond)
				}
			}
		}(g)
	}
	wg.Wait()
	fmt.Printf("C17CHILD writes=%d\n", atomic.LoadInt64(&n))
}

func c17WriteVsSweep(r *vh.Run) {
	cmd := exec.Command(os.Args[0], "-test.run", "^TestC17ChildWriteVsSweep$", "-test.count=1")
	cmd.Env = append(os.Environ(), "VERIF_C17_CHILD=1", "VERIF_OUT=", "GOMAXPROCS=2")
	outb, _ := cmd.CombinedOutput()
	got := ""
	for _, l := range strings.Split(string(outb), "\n") {
		if strings.HasPrefix(l, "C17CHILD ") {
			got = strings.TrimPrefix(l, "C17CHILD ")
		}
	}
	line := "q: NewQueuePacketConn(timeout 50us); 200 goroutines WriteTo 3 client addresses for 2.5 s while the sweep expires their queues (child process, GOMAXPROCS=2)"
	r.Case("queue/write-vs-sweep", line, true)
	if got == "" {
		tail := string(outb)
		if i := strings.Index(tail, "panic:"); i >= 0 {
			tail = tail[i:]
		}
		if len(tail) > 900 {
			tail = tail[:900]
		}
		r.OracleFail("queue-write-panics-against-sweep", line, "child process died: "+tail,
			"WriteTo queues or drops the packet and returns, whatever the sweep does to the client's queue in the meantime")
	}
}

func TestVerifC17(t *testing.T) {
	r := vh.Start("C17")
	defer r.Finish()
	rng := r.Rng
	c17WriteVsSweep(r)
	c17RealClock(r)
	c17AfterClose(r)
	c17ManyExpire(r)
	r.Note("error channel capacities read from the source by the model: %s", r.Model("c17 caps"))

	for i := 0; i < r.N(400, 8000); i++ {
		c17cmSequence(r, rng)
	}
	for i := 0; i < r.N(250, 5000); i++ {
		c17qSequence(r, rng, false)
	}
	for i := 0; i < r.N(2, 12); i++ {
		c17qSequence(r, rng, true)
	}
	// fixed scripts first (every mode alone, every end), then generated ones
	fixed := []struct {
		modes string
		end   byte
	}{{"", 'F'}, {"", 'C'}, {"", 'L'}, {"W", 'F'}, {"R", 'F'}, {"B", 'F'}, {"WWWWW", 'C'}, {"WRB", 'L'}, {"RRR", 'F'}, {"BWBW", 'C'},
		{"", 'S'}, {"W", 'S'}, {"RWB", 'S'}}
	for _, f := range fixed {
		c17redialCase(r, f.modes, f.end)
	}
	for i := 0; i < r.N(20, 300); i++ {
		n := rng.Intn(7)
		if rng.Intn(10) == 0 {
			n = 10 + rng.Intn(15)
		}
		var b strings.Builder
		for j := 0; j < n; j++ {
			b.WriteByte("WRB"[rng.Intn(3)])
		}
		c17redialCase(r, b.String(), "FCLS"[rng.Intn(4)])
	}
	c17ConcurrentEnqueue(r)
}

// c17ConcurrentEnqueue: several carriers call QueueIncoming / WriteTo at the same time while fewer slots
// are free than callers and nobody drains the queue: every call returns at once (packets beyond the
// capacity are dropped), none blocks, and what is queued is whole packets of the callers in FIFO order per
// caller.
func c17ConcurrentEnqueue(r *vh.Run) {
	for round := 0; round < r.N(6, 60); round++ {
		c := NewQueuePacketConn(c17addr(1), time.Hour)
		free := round % 5 // slots left free before the burst
		callers := 8
		dir := []string{"incoming", "outgoing"}[round%2]
		fill := queueSize - free
		for i := 0; i < fill; i++ {
			if dir == "incoming" {
				c.QueueIncoming([]byte{0, byte(i), byte(i >> 8)}, c17addr(5))
			} else {
				c.WriteTo([]byte{0, byte(i), byte(i >> 8)}, c17addr(5))
			}
		}
		start := make(chan struct{})
		done := make(chan int, callers)
		for g := 0; g < callers; g++ {
			go func(g int) {
				<-start
				p := make([]byte, 1<<16)
				p[0] = byte(1 + g)
				if dir == "incoming" {
					c.QueueIncoming(p, c17addr(5))
				} else {
					c.WriteTo(p, c17addr(5))
				}
				done <- g
			}(g)
		}
		close(start)
		returned := 0
		deadline := time.After(3 * time.Second)
	wait:
		for returned < callers {
			select {
			case <-done:
				returned++
			case <-deadline:
				break wait
			}
		}
		line := fmt.Sprintf("c17 burst %s free=%d callers=%d", dir, free, callers)
		r.Case("q/concurrent-burst/"+dir, line, true)
		if returned < callers {
			r.OracleFail("queue-op-blocks-when-full", line, fmt.Sprintf("%d of %d concurrent calls still blocked after 3 s", callers-returned, callers),
				"QueueIncoming / WriteTo must never block: a packet that does not fit is dropped")
		}
		queued := 0
		if dir == "incoming" {
			queued = len(c.recvQueue)
		} else {
			queued = len(c.OutgoingQueue(c17addr(5)))
		}
		if returned == callers && queued != queueSize && free <= callers {
			r.OracleFail("queue-burst-wrong-length", line, fmt.Sprintf("queue holds %d packets, capacity %d", queued, queueSize),
				"with at least as many callers as free slots the queue must end up full, and never over capacity")
		}
		c.Close() // unblocks stuck callers of a broken implementation
	}
}
