//go:build verif

package snowflake_proxy

// C13 harness, proxy side (virtual file in /repo/proxy/lib): extracting a peer address from any SDP text
// must return a value or nil, never panic.  Supporting evidence for the clause that rests on pion's
// parsers (not modelled): generated SDPs that pion/sdp accepts but whose candidate lines pion/ice
// rejects, mutated canonical SDPs, arbitrary text.

import (
	"fmt"
	"math/rand"
	"strings"
	"testing"

	vh "git.torproject.org/pluggable-transports/snowflake.git/v2/common/zzverif"
	"github.com/pion/sdp/v3"
)

const c13SdpHead = "v=0\r\no=- 4358805017720277108 2 IN IP4 8.8.8.8\r\ns=-\r\nt=0 0\r\n"

// the same head with a session-level c= line where RFC 4566 puts it (before t=); pion rejects it elsewhere
const c13SdpHeadC = "v=0\r\no=- 4358805017720277108 2 IN IP4 8.8.8.8\r\ns=-\r\n%s\r\nt=0 0\r\n"

// c13Conn: connection lines — complete, multicast forms, truncated after every field, odd spacing
func c13Conn(rng *rand.Rand) string {
	return []string{
		"c=IN IP4 1.2.3.4", "c=IN IP4 8.8.8.8/127", "c=IN IP4 224.2.1.1/127/3", "c=IN IP4 0.0.0.0", "c=IN IP4 x", "c=IN IP4 ", "c=IN IP4", "c=IN IP4  ",
		"c=IN IP6 2001:db8::2", "c=IN IP6 ::", "c=IN IP6 fe80::1", "c=IN IP6 zz", "c=IN IP6 ff15::101/3", "c=IN IP6 ", "c=IN IP6",
		"c=IN", "c=IN ", "c=", "c= ", "c=IN IP4 1.2.3.4 5.6.7.8", "c=IN  IP4 1.2.3.4", "c=IN\tIP4\t8.8.4.4", "c=IN IP4 /", "c=IN IP4 /1", "c=IN IP5 1.2.3.4", "c=in ip4 1.2.3.4",
	}[rng.Intn(26)]
}

func c13Cand(rng *rand.Rand) string {
	good := []string{
		"candidate:3769337065 1 udp 2122260223 129.97.208.23 56688 typ host generation 0 network-id 1 network-cost 50",
		"candidate:1 1 UDP 2130706431 2001:db8::1 9 typ srflx raddr 10.0.0.1 rport 3",
		"candidate:2 1 tcp 1518280447 192.168.1.5 9 typ host tcptype active",
		"candidate:7 1 udp 1 8.8.4.4 1 typ relay raddr 0.0.0.0 rport 0",
	}
	bad := []string{
		"candidate:", "candidate", "candidate:1 1 udp", "candidate:1 x udp 1 1.2.3.4 5 typ host", "candidate:1 1 udp 1 1.2.3.4 port typ host",
		"candidate:1 1 udp 1 1.2.3.4 5 typ bogus", "candidate:1 1 udp 1 1.2.3.4 5", "candidate:1 1 udp 1 1.2.3.4 5 typ", "candidate:1 1 udp 99999999999999999999 1.2.3.4 5 typ host",
		"candidate:1 1 udp 1  5 typ host", "candidate:\x00", "candidate:1 1 udp 1 999.1.1.1 5 typ host", "candidate:1 1 udp 1 1.2.3.4 70000 typ host",
		"candidate:1 1 udp 1 1.2.3.4 5 typ host raddr", "candidate:1 1 udp 1 1.2.3.4 5 typ host tcptype",
	}
	switch rng.Intn(4) {
	case 0:
		return good[rng.Intn(len(good))]
	case 1:
		s := good[rng.Intn(len(good))]
		f := strings.Fields(s)
		i := rng.Intn(len(f))
		switch rng.Intn(3) {
		case 0:
			f = append(f[:i], f[i+1:]...)
		case 1:
			f[i] = ""
		default:
			f[i] = f[i] + "x"
		}
		return strings.Join(f, " ")
	default:
		return bad[rng.Intn(len(bad))]
	}
}

func TestVerifC13Proxy(t *testing.T) {
	r := vh.Start("C13")
	defer r.Finish()
	rng := r.Rng
	try := func(class, sdpText string) {
		out := "ok"
		func() {
			defer func() {
				if x := recover(); x != nil {
					out = fmt.Sprintf("panic:%v", x)
				}
			}()
			ip := remoteIPFromSDP(sdpText)
			if ip != nil {
				out = "ip"
			} else {
				out = "nil"
			}
		}()
		// which inputs get past pion's SDP parser (only those reach the candidate and connection-line logic)
		var d sdp.SessionDescription
		parsed := "pion-rejects"
		if d.Unmarshal([]byte(sdpText)) == nil {
			parsed = "pion-parses"
		}
		r.Case("remoteip/"+class+"/"+parsed+"/"+strings.SplitN(out, ":", 2)[0], vh.Hex([]byte(sdpText)), true)
		if strings.HasPrefix(out, "panic") {
			r.OracleFail("remote-ip-from-sdp-panics", vh.Hex([]byte(sdpText)), out,
				"extracting a peer address from any SDP text must return a value or nothing, never panic: "+fmt.Sprintf("%q", sdpText))
		}
	}
	for i := 0; i < r.N(1500, 30000); i++ {
		nl := "\r\n"
		if rng.Intn(3) == 0 {
			nl = "\n"
		}
		var b strings.Builder
		if rng.Intn(2) == 0 {
			b.WriteString(strings.ReplaceAll(fmt.Sprintf(c13SdpHeadC, c13Conn(rng)), "\r\n", nl))
		} else {
			b.WriteString(strings.ReplaceAll(c13SdpHead, "\r\n", nl))
		}
		noCands := rng.Intn(3) == 0 // descriptions without candidates reach the connection-line fallback
		for m, nm := 0, rng.Intn(3); m < nm; m++ {
			b.WriteString("m=application 9 UDP/DTLS/SCTP webrtc-datachannel" + nl)
			if rng.Intn(2) == 0 {
				b.WriteString(c13Conn(rng) + nl)
			}
			for c, nc := 0, rng.Intn(5); c < nc && !noCands; c++ {
				b.WriteString("a=" + c13Cand(rng) + nl)
			}
			if rng.Intn(4) == 0 {
				b.WriteString("a=end-of-candidates" + nl)
			}
		}
		s := b.String()
		try("structured", s)
		if i%40 == 0 {
			// many attributes: several media sections with hundreds of attributes before the last one, no remote
			// candidate early on
			var mb strings.Builder
			mb.WriteString(strings.ReplaceAll(c13SdpHead, "\r\n", nl))
			for m, nm := 0, 2+rng.Intn(3); m < nm; m++ {
				mb.WriteString("m=application 9 UDP/DTLS/SCTP webrtc-datachannel" + nl)
				for a, na := 0, rng.Intn(400); a < na; a++ {
					fmt.Fprintf(&mb, "a=x-filler:%d%s", a, nl)
				}
				if m == nm-1 || rng.Intn(3) == 0 {
					mb.WriteString("a=" + c13Cand(rng) + nl)
				}
			}
			try("many-attributes", mb.String())
		}
		if rng.Intn(3) == 0 {
			bs := []byte(s)
			for k := 0; k < 1+rng.Intn(3) && len(bs) > 0; k++ {
				j := rng.Intn(len(bs))
				switch rng.Intn(3) {
				case 0:
					bs[j] = byte(rng.Intn(256))
				case 1:
					bs = append(bs[:j], bs[j+1:]...)
				default:
					bs = bs[:j]
				}
			}
			try("mutated", string(bs))
		}
	}
	for i := 0; i < r.N(300, 5000); i++ {
		b := make([]byte, rng.Intn(120))
		rng.Read(b)
		try("random", string(b))
	}
	for _, s := range []string{"", "v=0", "a=candidate:", c13SdpHead + "m=application 9 UDP/DTLS/SCTP webrtc-datachannel\r\na=candidate:\r\n"} {
		try("fixed", s)
	}
}
