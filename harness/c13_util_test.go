//go:build verif

package util

// C13 correspondence + oracle harness (virtual file in common/util).
//
//	correspondence  real SerializeSessionDescription / DeserializeSessionDescription (under recover)
//	                against the Lean model (`c13 ser`, `c13 de 1` = the function with checked assertions)
//	oracle          (a) DeserializeSessionDescription never panics            key deserialize-panic
//	                (b) Deserialize(Serialize(d)) == d for the four types      key roundtrip

import (
	"fmt"
	"math/rand"
	"strings"
	"testing"
	"unicode/utf8"

	vh "git.torproject.org/pluggable-transports/snowflake.git/v2/common/zzverif"
	"github.com/pion/webrtc/v3"
)

func c13TypeName(t webrtc.SDPType) string {
	switch t {
	case webrtc.SDPTypeOffer:
		return "offer"
	case webrtc.SDPTypePranswer:
		return "pranswer"
	case webrtc.SDPTypeAnswer:
		return "answer"
	case webrtc.SDPTypeRollback:
		return "rollback"
	}
	return "other"
}

// c13Deserialize runs the real function; a panic is the outcome "panic".
func c13Deserialize(msg string) (out string) {
	defer func() {
		if r := recover(); r != nil {
			out = "panic"
		}
	}()
	d, err := DeserializeSessionDescription(msg)
	if err != nil {
		return "err"
	}
	if d == nil {
		return "nil"
	}
	return fmt.Sprintf("ok %s %s", c13TypeName(d.Type), vh.Hex([]byte(d.SDP)))
}

func c13Serialize(t int, sdp string) (out string) {
	defer func() {
		if r := recover(); r != nil {
			out = "panic"
		}
	}()
	s, err := SerializeSessionDescription(&webrtc.SessionDescription{Type: webrtc.SDPType(t), SDP: sdp})
	if err != nil {
		return "err"
	}
	return vh.Hex([]byte(s))
}

// toValid is Go's replacement policy: one U+FFFD per offending byte.
func c13ToValid(s string) string {
	var b strings.Builder
	for i := 0; i < len(s); {
		r, sz := utf8.DecodeRuneInString(s[i:])
		b.WriteRune(r)
		i += sz
	}
	return b.String()
}

var c13TypeNames = []string{"offer", "pranswer", "answer", "rollback"}

// c13Member returns the text of one member value and a label for the distribution.
func c13Member(g *vh.JGen, which string) (string, string) {
	r := g.Rng
	switch r.Intn(10) {
	case 0, 1, 2, 3, 4:
		if which == "type" {
			switch r.Intn(8) {
			case 0:
				return g.StrLit([]string{"Offer", "OFFER", "", "unknown", "offer ", "answeR", "x"}[r.Intn(7)]), "badname"
			default:
				return g.StrLit(c13TypeNames[r.Intn(4)]), "name"
			}
		}
		return g.StrLit(g.GoString(g.Len(), 0)), "str"
	case 5:
		return g.WeirdStrLit(), "weirdstr"
	default:
		k := vh.JKinds[r.Intn(len(vh.JKinds))]
		return g.ValueOf(k, 1), k
	}
}

// c13Doc builds one JSON-shaped document: an object with present / absent / duplicated / re-spelled
// "type" and "sdp" members of every JSON type, extra members, random whitespace.
func c13Doc(g *vh.JGen) (string, string) {
	r := g.Rng
	type member struct{ key, val string }
	var ms []member
	label := ""
	for _, which := range []string{"type", "sdp"} {
		mode := r.Intn(12)
		switch {
		case mode == 0:
			label += which + "=absent,"
		case mode == 1: // duplicate: last one wins
			v1, _ := c13Member(g, which)
			v2, l2 := c13Member(g, which)
			ms = append(ms, member{g.StrLit(which), v1}, member{g.StrLit(which), v2})
			label += which + "=dup:" + l2 + ","
		case mode == 2: // a spelling that is a different map key (maps do not fold case)
			k, _ := g.FoldVariant(which)
			v, _ := c13Member(g, which)
			ms = append(ms, member{g.StrLit(k), v})
			if k == which {
				label += which + "=present,"
			} else {
				label += which + "=folded-key,"
			}
		default:
			v, l := c13Member(g, which)
			ms = append(ms, member{g.StrLit(which), v})
			label += which + "=" + l + ","
		}
	}
	for i, n := 0, r.Intn(3); i < n && r.Intn(3) == 0; i++ {
		ms = append(ms, member{g.StrLit(g.GoString(r.Intn(6), 0)), g.Value(1)})
	}
	r.Shuffle(len(ms), func(i, j int) { ms[i], ms[j] = ms[j], ms[i] })
	var parts []string
	for _, m := range ms {
		parts = append(parts, g.Ws()+m.key+g.Ws()+":"+g.Ws()+m.val+g.Ws())
	}
	body := strings.Join(parts, ",")
	if len(parts) == 0 {
		body = g.Ws()
	}
	label = strings.TrimSuffix(label, ",")
	if !strings.HasPrefix(label, "type=name,") {
		label = label[:strings.Index(label, ",")]
	}
	return g.Ws() + "{" + body + "}" + g.Ws(), label
}

func TestVerifC13(t *testing.T) {
	r := vh.Start("C13")
	defer r.Finish()
	{
		g := &vh.JGen{Rng: rand.New(rand.NewSource(r.Seed + 77))}
		var cs []string
		for i := 0; i < r.N(300, 3000); i++ {
			d, _ := c13Doc(g)
			cs = append(cs, d)
		}
		r.Independent("deserialize-serialize", "DeserializeSessionDescription / SerializeSessionDescription", cs, func(c string) string {
			sd, err := DeserializeSessionDescription(c)
			if err != nil || sd == nil {
				return "err"
			}
			out, err := SerializeSessionDescription(sd)
			return fmt.Sprintf("%s|%v", vh.Hex([]byte(out)), err != nil)
		})
	}
	defer func() { // a crash of the harness itself must not pass for a clean run
		if p := recover(); p != nil {
			r.Compare("harness-crash", "TestVerifC13", fmt.Sprint(p), "")
			t.Errorf("harness crashed: %v", p)
		}
	}()
	g := &vh.JGen{Rng: r.Rng}
	rng := r.Rng

	checkDe := func(class, doc string) {
		real := c13Deserialize(doc)
		line := "c13 de 1 " + vh.Hex([]byte(doc))
		outcome := real
		if strings.HasPrefix(real, "ok ") {
			outcome = "ok"
		}
		r.Case("de/"+class+"/"+outcome, line, real != "err" || jsonLooksValid(doc))
		if real == "panic" {
			r.OracleFail("deserialize-panic", line, real,
				fmt.Sprintf("DeserializeSessionDescription(%s) panicked; a string received from the other side must yield a description or an error", trunc(doc)))
		}
		r.Compare("deserialize", line, real, r.Model(line))
	}

	// 1. fixed documents: the F6 witnesses, every JSON type at top level, corner cases
	fixed := []string{
		`{"type":1,"sdp":""}`, `{"type":"offer","sdp":1}`, `{"type":null,"sdp":null}`,
		`{"type":"offer","sdp":"v=0\r\n"}`, `{"type":"x","sdp":1}`, `{"type":true,"sdp":"x"}`, `{"type":[],"sdp":"x"}`, `{"type":{},"sdp":"x"}`,
		`{"type":"answer","sdp":null}`, `{"type":"answer","sdp":[1]}`, `{"type":"answer","sdp":{"a":"b"}}`, `{"type":"answer","sdp":false}`,
		`{"type":"offer"}`, `{"sdp":"x"}`, `{}`, `null`, ` null `, `true`, `false`, `1`, `"x"`, `[]`, `[{"type":"offer","sdp":""}]`, ``, ` `, `nul`, `{`,
		`{"type":"offer","sdp":"a","sdp":"b"}`, `{"type":"offer","type":2,"sdp":"b"}`, `{"type":2,"type":"offer","sdp":"b"}`,
		`{"Type":"offer","SDP":"b"}`, `{"type":"offer","sdp":"b"}`, `{"type":"offer","sdp":"😀\ud800"}`,
		`{"type":"offer","sdp":"x","n":1e999}`, `{"type":"offer","sdp":"x","n":[[1e999]]}`, `{"type":"offer","sdp":"x","n":1e308}`,
		`{"type":"offer","sdp":"x","n":1e999,"n":1}`, `{"type":"offer","sdp":1e999}`, `{"type":1e999,"sdp":1}`,
		`{"type":"offer","sdp":"x"} x`, `{"type":"offer","sdp":"x"}{}`, `{"type":"offer","sdp":"x",}`, `{"type":"offer" "sdp":"x"}`,
		"{\"type\":\"offer\",\"sdp\":\"a\xffb\"}", "{\"type\":\"offer\",\"sdp\":\"a\"}\xff", "\xef\xbb\xbf{\"type\":\"offer\",\"sdp\":\"a\"}",
		"{\"type\":\"offer\",\"sdp\":\"a\nb\"}", `{"type":"offer","sdp":"\x41"}`, `{"type":"offer","sdp":"é </script>&"}`,
	}
	for _, d := range fixed {
		checkDe("fixed", d)
	}
	for _, n := range []int{9999, 10000, 10001} {
		for _, open := range []byte{'[', '{'} {
			if open == '{' && !r.Thorough() && n != 10000 {
				continue
			}
			checkDe("deep", `{"type":"offer","sdp":"x","d":`+g.Deep(n-1, open, true)+`}`)
			checkDe("deep", g.Deep(n, open, true))
			checkDe("deep", g.Deep(n, open, false))
		}
	}

	// 2. JSON-shape generator
	var valid []string
	for i, n := 0, r.N(3000, 60000); i < n; i++ {
		doc, label := c13Doc(g)
		checkDe("shape:"+label, doc)
		if len(valid) < 400 {
			valid = append(valid, doc)
		}
	}
	// 3. every JSON type at top level
	for i, n := 0, r.N(300, 6000); i < n; i++ {
		k := vh.JKinds[rng.Intn(len(vh.JKinds))]
		doc := g.Ws() + g.ValueOf(k, 0) + g.Ws()
		if rng.Intn(10) == 0 {
			doc += []string{"x", "{}", ",", "]", "\x00", "null"}[rng.Intn(6)]
		}
		checkDe("top:"+k, doc)
	}
	// 4. malformed stream: mutations and truncations of valid documents, random bytes
	for i, n := 0, r.N(1500, 30000); i < n; i++ {
		doc := g.Mutate(valid[rng.Intn(len(valid))])
		checkDe("mutated", doc)
	}
	for i, n := 0, r.N(300, 6000); i < n; i++ {
		checkDe("random", g.RandomBytes())
	}

	// 5. serialisation and the round trip, SDP text of any content
	for i, n := 0, r.N(1500, 30000); i < n; i++ {
		ty := 1 + rng.Intn(4)
		if rng.Intn(12) == 0 {
			ty = []int{0, 5, 6, -1, 255}[rng.Intn(5)]
		}
		inv := 0
		if rng.Intn(5) == 0 {
			inv = 6
		}
		sdp := g.GoString(g.Len(), inv)
		if rng.Intn(6) == 0 {
			sdp = "v=0\r\no=- 1 2 IN IP4 0.0.0.0\r\ns=-\r\nt=0 0\r\na=candidate:1 1 udp 2 192.168.1.2 5000 typ host\r\n" + sdp
		}
		if rng.Intn(8) == 0 {
			// text that looks like JSON escapes once serialised: literal backslashes in front of u003c / u0026 / n / ", HTML characters
			frag := []string{"\\u003c", "\\u003e", "\\u0026", "\\\\u003c", "\\n", "\\\"", "\\", "<", ">", "&", "\\u2028", "\u2028", "</script>", "\\x41", "\\/"}
			for k := 0; k < 1+rng.Intn(4); k++ {
				j := rng.Intn(len(sdp) + 1)
				for j > 0 && j < len(sdp) && !utf8.RuneStart(sdp[j]) {
					j--
				}
				sdp = sdp[:j] + frag[rng.Intn(len(frag))] + sdp[j:]
			}
		}
		realSer := c13Serialize(ty, sdp)
		mt := ty
		if mt < 0 || mt > 4 {
			mt = 0
		}
		line := fmt.Sprintf("c13 ser %d %s", mt, vh.Hex([]byte(sdp)))
		class := "ser/defined"
		if mt == 0 {
			class = "ser/other-type"
		}
		if !utf8.ValidString(sdp) {
			class += "/invalid-utf8"
		}
		r.Case(class, line, len(sdp) > 0)
		r.Compare("serialize", line, realSer, r.Model(line))
		if realSer == "err" || realSer == "panic" {
			r.OracleFail("serialize-fails", line, realSer, "SerializeSessionDescription must succeed for every description")
			continue
		}
		// round trip on the real code alone
		s, _ := SerializeSessionDescription(&webrtc.SessionDescription{Type: webrtc.SDPType(ty), SDP: sdp})
		back := c13Deserialize(s)
		if mt != 0 {
			want := fmt.Sprintf("ok %s %s", c13TypeNames[mt-1], vh.Hex([]byte(c13ToValid(sdp))))
			if back != want {
				r.OracleFail("roundtrip", line, back, "deserialising a serialised description must give back its type and SDP text (offending bytes as U+FFFD): want "+trunc(want))
			}
		} else if back != "err" {
			r.OracleFail("roundtrip-undefined-type", line, back, "a description with an undefined SDP type must be rejected with an error when read back")
		}
		// and the serialised text through the model of the decoder
		l2 := "c13 de 1 " + vh.Hex([]byte(s))
		r.Compare("deserialize", l2, back, r.Model(l2))
	}
}

func trunc(s string) string {
	q := fmt.Sprintf("%q", s)
	if len(q) > 300 {
		return q[:300] + "…"
	}
	return q
}

// jsonLooksValid: cheap "reached past the syntax check" test used only for the non-trivial count.
func jsonLooksValid(doc string) bool {
	d := strings.TrimSpace(doc)
	return strings.HasPrefix(d, "{") && strings.HasSuffix(d, "}")
}
