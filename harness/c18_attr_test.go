//go:build verif

package snowflake_server

// C18, attribution clause (virtual file in server/lib via -overlay).
//
// The REAL server — `Transport.Listen` on 127.0.0.1:0, its net/http + gorilla WebSocket handler
// (ServeHTTP, turbotunnelMode), QueuePacketConn, kcp-go listener, acceptSessions / acceptStreams, smux —
// is driven by a harness-owned client: real WebSocket carriers with `?client_ip=…`, and per session a
// kcp-go + smux client over an encapsulation packet conn over those carriers, wired as
// client/lib newSession wires them.  Scenarios are generated: several sessions with near-colliding
// ClientIDs and client_ip values of every class (valid v4 / v6, absent, empty, garbage, unspecified), dead
// carriers before and after the establishment, a redial (second live carrier of the same ClientID with a
// DIFFERENT client_ip) after the establishment and before a later stream, carriers of other sessions in
// between, several streams per session, carriers with a wrong token, and — with the global map replaced by
// `newClientIDMap(k)` for small k — enough foreign carriers to push a ClientID out of the map.
//
// Every step is finished before the next one starts, by a causal barrier:
//   * a stream step ends when the harness's Accept loop has read the stream's tag (the Get of
//     acceptStreams precedes AcceptStream in the same goroutine; a redial's Set precedes the read loop
//     that carries the SYN of the next stream, which is sent on the new carrier only);
//   * a dead carrier (token + ClientID, then a close frame) ends when the server has closed the TCP
//     connection (ServeHTTP returns after turbotunnelMode, hence after the Set);
//   * a live carrier whose session starts later ("late") ends when the Set is visible through
//     clientIDAddrMap.Get (read-only peek; such carriers use fresh, unique, valid addresses).
// So the order of the Sets and Gets at the server is the order of the steps, and the scenario is an event
// sequence of Model/Attribution.lean: for every connection returned by ln.Accept(), RemoteAddr() is
// compared with the model (`c18 attr`) and judged by direct oracles (address changed between streams of
// one session; address of another session; independent bounded-log reference).

import (
	"bufio"
	"encoding/binary"
	"fmt"
	"io"
	"io/ioutil"
	"log"
	"math/rand"
	"net"
	"net/url"
	"strings"
	"sync"
	"testing"
	"time"

	"git.torproject.org/pluggable-transports/snowflake.git/v2/common/encapsulation"
	"git.torproject.org/pluggable-transports/snowflake.git/v2/common/turbotunnel"
	"git.torproject.org/pluggable-transports/snowflake.git/v2/common/websocketconn"
	vh "git.torproject.org/pluggable-transports/snowflake.git/v2/common/zzverif"
	"github.com/gorilla/websocket"
	"github.com/xtaci/kcp-go/v5"
	"github.com/xtaci/smux"
)

const c18aStepTimeout = 20 * time.Second

type c18aAddr struct{}

func (c18aAddr) Network() string { return "dummy" }
func (c18aAddr) String() string  { return "dummy" }

// ---------------------------------------------------------------------------------------------
// client_ip values

type c18aIP struct {
	present bool   // the request has a client_ip parameter at all
	s       string // its (unescaped) value
	class   string
}

func (ip c18aIP) String() string {
	if !ip.present {
		return "<absent>"
	}
	return fmt.Sprintf("%q", ip.s)
}

var c18aJunk = []string{"abc", "1.2.3", "1.2.3.4:80", "fe80::1%eth0", "01.2.3.4", "1.2.3.4.5", "[::1]", "::ffff:1.2.3.256", " 1.2.3.4", "1.2.3.4\n",
	"localhost", "1::2::3", "12345::", "0x7f.0.0.1", "%", "&client_ip=9.9.9.9", "9.9.9.9&x=1", "a=b;c", "1.2.3.4\x00", "\xff\xfe"}
var c18aUnspec = []string{"0.0.0.0", "::", "::ffff:0.0.0.0", "0:0:0:0:0:0:0:0", "::0.0.0.0", "::ffff:0:0"}

// c18aValid makes a valid, specified address text that no earlier carrier of the scenario used
// (judged by the real sanitiser's output, so that "address of another session" is unambiguous).
func c18aValid(rng *rand.Rand, used map[string]bool) c18aIP {
	for {
		var c c18case
		if rng.Intn(2) == 0 {
			c = c18case{s: fmt.Sprintf("%d.%d.%d.%d", 1+rng.Intn(223), rng.Intn(256), rng.Intn(256), 1+rng.Intn(254)), class: "v4"}
		} else {
			c = c18v6(rng, rng.Intn(256))
			c.class = "v6"
		}
		a := c18realAddr(c.s)
		if a == "" || a == "panic" || a == "nil-addr" || strings.HasPrefix(a, "network:") || used[a] {
			continue
		}
		used[a] = true
		return c18aIP{true, c.s, c.class}
	}
}

func c18aAnyIP(rng *rand.Rand, used map[string]bool) c18aIP {
	switch x := rng.Intn(20); {
	case x < 10:
		return c18aValid(rng, used)
	case x < 12:
		return c18aIP{false, "", "absent"}
	case x < 13:
		return c18aIP{true, "", "empty"}
	case x < 15:
		return c18aIP{true, c18aUnspec[rng.Intn(len(c18aUnspec))], "unspecified"}
	case x < 18:
		return c18aIP{true, c18aJunk[rng.Intn(len(c18aJunk))], "junk"}
	default:
		g := c18garbage(rng, c18specials)
		a := c18realAddr(g.s)
		if a != "" && used[a] { // a mutation that happens to be a valid address already in use
			return c18aIP{true, "junk", "junk"}
		}
		used[a] = true
		return c18aIP{true, g.s, "garbage"}
	}
}

// ---------------------------------------------------------------------------------------------
// the harness's client: carriers, packet conn, KCP + smux session

func c18aDial(serverAddr string, ip c18aIP) (*websocket.Conn, error) {
	u := "ws://" + serverAddr + "/"
	if ip.present {
		u += "?client_ip=" + url.QueryEscape(ip.s)
	}
	d := websocket.Dialer{HandshakeTimeout: 10 * time.Second}
	ws, _, err := d.Dial(u, nil)
	return ws, err
}

// c18aDeadCarrier presents token (optionally corrupted) + ClientID, sends a close frame and waits until
// the server has closed the TCP connection.  ok=false: the barrier was not reached in time.
func c18aDeadCarrier(serverAddr string, ip c18aIP, id turbotunnel.ClientID, badToken bool, rng *rand.Rand) (ok bool, why string) {
	ws, err := c18aDial(serverAddr, ip)
	if err != nil {
		return false, "dial: " + err.Error()
	}
	defer ws.Close()
	tok := append([]byte(nil), turbotunnel.Token[:]...)
	if badToken {
		tok[rng.Intn(len(tok))] ^= byte(1 << uint(rng.Intn(8)))
	}
	ws.SetWriteDeadline(time.Now().Add(c18aStepTimeout))
	if rng.Intn(2) == 0 { // one message or two
		err = ws.WriteMessage(websocket.BinaryMessage, append(tok, id[:]...))
	} else {
		if err = ws.WriteMessage(websocket.BinaryMessage, tok); err == nil {
			err = ws.WriteMessage(websocket.BinaryMessage, id[:])
		}
	}
	if err != nil && !badToken {
		return false, "handshake write: " + err.Error()
	}
	ws.WriteControl(websocket.CloseMessage, websocket.FormatCloseMessage(websocket.CloseNormalClosure, ""), time.Now().Add(c18aStepTimeout))
	deadline := time.Now().Add(c18aStepTimeout)
	ws.SetReadDeadline(deadline)
	for {
		if _, _, err := ws.ReadMessage(); err != nil {
			if ne, isNet := err.(net.Error); isNet && ne.Timeout() {
				return false, "server did not close the carrier"
			}
			break
		}
	}
	// the close frame may have been echoed by the read pump before the handler finished: wait for the
	// TCP close, which happens when ServeHTTP returns
	nc := ws.UnderlyingConn()
	nc.SetReadDeadline(deadline)
	buf := make([]byte, 512)
	for {
		if _, err := nc.Read(buf); err != nil {
			if ne, isNet := err.(net.Error); isNet && ne.Timeout() {
				return false, "server did not close the TCP connection of the carrier"
			}
			return true, ""
		}
	}
}

type c18aCarrier struct {
	conn *websocketconn.Conn
	bw   *bufio.Writer
}

// c18aPC is the client's net.PacketConn: packets go up on the current carrier and come down on any.
type c18aPC struct {
	mu     sync.Mutex
	up     *c18aCarrier
	all    []*c18aCarrier
	recv   chan []byte
	closed chan struct{}
	once   sync.Once
}

func c18aNewPC() *c18aPC {
	return &c18aPC{recv: make(chan []byte, 1024), closed: make(chan struct{})}
}

// attach dials a live carrier, presents token + ClientID (as newSession's dialContext does) and makes it
// the upstream path.
func (c *c18aPC) attach(serverAddr string, ip c18aIP, id turbotunnel.ClientID) error {
	ws, err := c18aDial(serverAddr, ip)
	if err != nil {
		return err
	}
	conn := websocketconn.New(ws)
	_, err = conn.Write(turbotunnel.Token[:])
	if err == nil {
		_, err = conn.Write(id[:])
	}
	if err != nil {
		conn.Close()
		return err
	}
	car := &c18aCarrier{conn: conn, bw: bufio.NewWriter(conn)}
	go func() {
		for {
			p, err := encapsulation.ReadData(conn)
			if err != nil {
				return
			}
			select {
			case c.recv <- append([]byte(nil), p...):
			case <-c.closed:
				return
			}
		}
	}()
	c.mu.Lock()
	c.up = car
	c.all = append(c.all, car)
	c.mu.Unlock()
	return nil
}

// dropOld closes every carrier but the current one (a redial after the old carrier died).
func (c *c18aPC) dropOld() {
	c.mu.Lock()
	var old []*c18aCarrier
	for _, x := range c.all {
		if x != c.up {
			old = append(old, x)
		}
	}
	c.all = nil
	if c.up != nil {
		c.all = []*c18aCarrier{c.up}
	}
	c.mu.Unlock()
	for _, x := range old {
		x.conn.Close()
	}
}

func (c *c18aPC) ReadFrom(p []byte) (int, net.Addr, error) {
	select {
	case b := <-c.recv:
		return copy(p, b), c18aAddr{}, nil
	case <-c.closed:
		return 0, c18aAddr{}, io.ErrClosedPipe
	}
}

func (c *c18aPC) WriteTo(p []byte, addr net.Addr) (int, error) {
	select {
	case <-c.closed:
		return 0, io.ErrClosedPipe
	default:
	}
	c.mu.Lock()
	defer c.mu.Unlock()
	if c.up == nil {
		return len(p), nil
	}
	_, err := encapsulation.WriteData(c.up.bw, p)
	if err == nil {
		err = c.up.bw.Flush()
	}
	if err != nil { // a lost packet; KCP retransmits
		c.up.bw = bufio.NewWriter(c.up.conn)
	}
	return len(p), nil
}

func (c *c18aPC) Close() error {
	c.once.Do(func() {
		close(c.closed)
		c.mu.Lock()
		all := c.all
		c.all, c.up = nil, nil
		c.mu.Unlock()
		for _, x := range all {
			x.conn.Close()
		}
	})
	return nil
}
func (c *c18aPC) LocalAddr() net.Addr                { return c18aAddr{} }
func (c *c18aPC) SetDeadline(t time.Time) error      { return nil }
func (c *c18aPC) SetReadDeadline(t time.Time) error  { return nil }
func (c *c18aPC) SetWriteDeadline(t time.Time) error { return nil }

type c18aSession struct {
	idx     int
	id      turbotunnel.ClientID
	idNum   int // the ClientID's name in the model line
	pc      *c18aPC
	kconn   *kcp.UDPSession
	sess    *smux.Session
	streams []*smux.Stream
	// oracle state
	opened   bool
	expected string   // what the independent reference says the session's address is (fixed at establishment)
	reported []string // what the accepted connections reported, per stream
	lastEv   string   // carriers of this ClientID since the previous stream (for messages)
}

// start layers KCP and smux on the packet conn, statement by statement as client/lib newSession.
func (s *c18aSession) start() error { return s.startWith(false) }

// startWith(true): the smux keep-alive runs every 40 ms, so NOP frames establish the KCP session at the server
// before the client opens its first stream (a client that connects and lets its first stream wait).
func (s *c18aSession) startWith(early bool) error {
	conn, err := kcp.NewConn2(c18aAddr{}, nil, 0, 0, s.pc)
	if err != nil {
		return err
	}
	conn.SetStreamMode(true)
	conn.SetWindowSize(WindowSize, WindowSize)
	conn.SetNoDelay(0, 0, 0, 1)
	smuxConfig := smux.DefaultConfig()
	smuxConfig.Version = 2
	smuxConfig.KeepAliveTimeout = 10 * time.Minute
	smuxConfig.MaxStreamBuffer = StreamSize
	if early {
		smuxConfig.KeepAliveInterval = 40 * time.Millisecond
	}
	sess, err := smux.Client(conn, smuxConfig)
	if err != nil {
		conn.Close()
		return err
	}
	s.kconn, s.sess = conn, sess
	return nil
}

func (s *c18aSession) openStream(scen int) error {
	st, err := s.sess.OpenStream()
	if err != nil {
		return err
	}
	var tag [8]byte
	tag[0], tag[1] = 'A', 'T'
	binary.BigEndian.PutUint16(tag[2:], uint16(scen))
	binary.BigEndian.PutUint16(tag[4:], uint16(s.idx))
	binary.BigEndian.PutUint16(tag[6:], uint16(len(s.streams)))
	st.SetWriteDeadline(time.Now().Add(c18aStepTimeout))
	if _, err := st.Write(tag[:]); err != nil {
		return err
	}
	s.streams = append(s.streams, st)
	return nil
}

func (s *c18aSession) close() {
	if s.sess != nil {
		s.sess.Close()
	}
	if s.kconn != nil {
		s.kconn.Close()
	}
	if s.pc != nil {
		s.pc.Close()
	}
}

// ---------------------------------------------------------------------------------------------
// scenarios

type c18aStep struct {
	kind string // orphan | badtoken | open | late | start | stream | redial | noise
	sess int    // session index (noise: index of the noise id)
	ip   c18aIP
	drop bool // redial: the old carrier is closed first
}

func (st c18aStep) String() string {
	switch st.kind {
	case "start", "stream":
		return fmt.Sprintf("%s(s%d)", st.kind, st.sess)
	case "early":
		return fmt.Sprintf("open-and-establish-without-a-stream(s%d,%v)", st.sess, st.ip)
	case "redial":
		return fmt.Sprintf("redial(s%d,%v,dropold=%v)+stream", st.sess, st.ip, st.drop)
	}
	return fmt.Sprintf("%s(s%d,%v)", st.kind, st.sess, st.ip)
}

type c18aAccepted struct {
	scen, sess, stream int
	addr               string
	err                string
}

func c18aCanon(a net.Addr) (out string) {
	defer func() {
		if e := recover(); e != nil {
			out = fmt.Sprintf("panic:%v", e)
		}
	}()
	if a == nil {
		return "none"
	}
	return vh.Hex([]byte(a.String()))
}

func c18aShow(h string) string {
	switch h {
	case "none":
		return "nil address"
	case "-":
		return `""`
	}
	var b []byte
	fmt.Sscanf(h, "%x", &b)
	return fmt.Sprintf("%q", string(b))
}

// independent reference for the map: log of all Sets; Get = newest entry of the id among the last cap
type c18aRef struct {
	capacity int
	log      []struct {
		id   int
		addr string
	}
}

func (r *c18aRef) set(id int, addr string) {
	r.log = append(r.log, struct {
		id   int
		addr string
	}{id, addr})
}

func (r *c18aRef) get(id int) string {
	lo := len(r.log) - r.capacity
	if lo < 0 {
		lo = 0
	}
	for j := len(r.log) - 1; j >= lo; j-- {
		if r.log[j].id == id {
			return r.log[j].addr
		}
	}
	return "none"
}

func c18aGenScenario(rng *rand.Rand, capacity int, used map[string]bool) (nSess, nNoise int, steps []c18aStep) {
	nSess = 2 + rng.Intn(3)
	nNoise = 1 + rng.Intn(3)
	small := capacity <= 4
	var scripts [][]c18aStep
	for i := 0; i < nSess; i++ {
		var sc []c18aStep
		for k := rng.Intn(3); k > 0; k-- { // earlier carriers of this ClientID that died before the session started
			sc = append(sc, c18aStep{kind: "orphan", sess: i, ip: c18aAnyIP(rng, used)})
		}
		if rng.Intn(6) == 0 {
			sc = append(sc, c18aStep{kind: "badtoken", sess: i, ip: c18aValid(rng, used)})
		}
		if rng.Intn(3) == 0 {
			sc = append(sc, c18aStep{kind: "late", sess: i, ip: c18aValid(rng, used)})
			n := rng.Intn(3)
			if small {
				n = rng.Intn(capacity + 2)
			}
			for ; n > 0; n-- { // carriers of other ClientIDs between this session's carrier and its establishment
				sc = append(sc, c18aStep{kind: "noise", sess: rng.Intn(nNoise), ip: c18aAnyIP(rng, used)})
			}
			sc = append(sc, c18aStep{kind: "start", sess: i})
		} else if rng.Intn(4) == 0 {
			// the session is established by keep-alive frames; its first stream comes later, after other carriers
			sc = append(sc, c18aStep{kind: "early", sess: i, ip: c18aAnyIP(rng, used)})
			sc = append(sc, c18aStep{kind: "redial", sess: i, ip: c18aAnyIP(rng, used), drop: rng.Intn(3) == 0})
		} else {
			sc = append(sc, c18aStep{kind: "open", sess: i, ip: c18aAnyIP(rng, used)})
		}
		for k := 2 + rng.Intn(4); k > 0; k-- {
			switch x := rng.Intn(10); {
			case x < 4:
				sc = append(sc, c18aStep{kind: "stream", sess: i})
			case x < 7: // the redial: another live carrier, another client_ip, then a stream
				sc = append(sc, c18aStep{kind: "redial", sess: i, ip: c18aAnyIP(rng, used), drop: rng.Intn(3) == 0})
			case x < 9: // a carrier of the same ClientID that comes and goes
				sc = append(sc, c18aStep{kind: "orphan", sess: i, ip: c18aAnyIP(rng, used)})
			default:
				sc = append(sc, c18aStep{kind: "noise", sess: rng.Intn(nNoise), ip: c18aAnyIP(rng, used)})
			}
		}
		sc = append(sc, c18aStep{kind: "stream", sess: i})
		scripts = append(scripts, sc)
	}
	if rng.Intn(2) == 0 { // a ClientID that only ever has dead carriers
		var sc []c18aStep
		for k := 1 + rng.Intn(3); k > 0; k-- {
			sc = append(sc, c18aStep{kind: "noise", sess: rng.Intn(nNoise), ip: c18aAnyIP(rng, used)})
		}
		scripts = append(scripts, sc)
	}
	// random interleaving that keeps each script's order
	for {
		var live []int
		for i, sc := range scripts {
			if len(sc) > 0 {
				live = append(live, i)
			}
		}
		if len(live) == 0 {
			break
		}
		i := live[rng.Intn(len(live))]
		steps = append(steps, scripts[i][0])
		scripts[i] = scripts[i][1:]
	}
	return
}

// c18aScenario runs one scenario; returns false when it had to be abandoned (a barrier was not reached).
func c18aScenario(t *testing.T, r *vh.Run, rng *rand.Rand, scen int, capacity int, replaceMap bool) bool {
	if replaceMap {
		clientIDAddrMap = newClientIDMap(capacity)
	}
	used := map[string]bool{}
	nSess, nNoise, steps := c18aGenScenario(rng, capacity, used)

	// ClientIDs: near-colliding (differ in one byte); sometimes the all-zero id
	base := make([]byte, 8)
	rng.Read(base)
	ids := make([]turbotunnel.ClientID, nSess+nNoise)
	idNum := make([]int, nSess+nNoise)
	for i := range ids {
		copy(ids[i][:], base)
		if i%2 == 0 {
			ids[i][7] ^= byte(i + 1)
		} else {
			ids[i][0] ^= byte(i + 1)
		}
		idNum[i] = i + 1
	}
	if rng.Intn(4) == 0 {
		z := rng.Intn(len(ids))
		ids[z] = turbotunnel.ClientID{}
		idNum[z] = 0
	}

	// the real server
	l, err := net.Listen("tcp", "127.0.0.1:0")
	if err != nil {
		t.Fatal(err)
	}
	addr := l.Addr().(*net.TCPAddr)
	l.Close()
	ln, err := NewSnowflakeServer(nil).Listen(addr)
	if err != nil {
		r.Note("scenario %d: Listen: %v", scen, err)
		return false
	}
	defer ln.Close()
	serverAddr := addr.String()
	accept := make(chan c18aAccepted, 64)
	var held []net.Conn
	var heldMu sync.Mutex
	go func() {
		for {
			conn, err := ln.Accept()
			if err != nil {
				return
			}
			heldMu.Lock()
			held = append(held, conn)
			heldMu.Unlock()
			go func(conn net.Conn) {
				a := c18aAccepted{scen: -1}
				defer func() {
					if e := recover(); e != nil {
						a.err = fmt.Sprintf("panic: %v", e)
					}
					accept <- a
				}()
				a.addr = c18aCanon(conn.RemoteAddr())
				var tag [8]byte
				conn.SetReadDeadline(time.Now().Add(c18aStepTimeout))
				if _, err := io.ReadFull(conn, tag[:]); err != nil {
					a.err = "reading the tag: " + err.Error()
					return
				}
				if tag[0] != 'A' || tag[1] != 'T' {
					a.err = "foreign tag " + vh.Hex(tag[:])
					return
				}
				a.scen = int(binary.BigEndian.Uint16(tag[2:]))
				a.sess = int(binary.BigEndian.Uint16(tag[4:]))
				a.stream = int(binary.BigEndian.Uint16(tag[6:]))
			}(conn)
		}
	}()
	defer func() {
		heldMu.Lock()
		for _, c := range held {
			c.Close()
		}
		heldMu.Unlock()
	}()

	sessions := make([]*c18aSession, nSess)
	for i := range sessions {
		sessions[i] = &c18aSession{idx: i, id: ids[i], idNum: idNum[i]}
	}
	defer func() {
		for _, s := range sessions {
			s.close()
		}
	}()

	ref := &c18aRef{capacity: capacity}
	own := make([]map[string]bool, len(ids)) // sanitised addresses presented with each ClientID so far (hex)
	for i := range own {
		own[i] = map[string]bool{}
	}
	var events, outs, desc []string
	abandoned := ""
	note := func(i int, s string) {
		if i < nSess {
			sessions[i].lastEv += " " + s
		}
	}
	carrier := func(idIdx int, ip c18aIP) { // bookkeeping of a carrier that presented ids[idIdx] with ip
		events = append(events, fmt.Sprintf("c%d=%s", idNum[idIdx], vh.Hex([]byte(ip.s))))
		a := vh.Hex([]byte(c18realAddr(ip.s)))
		ref.set(idNum[idIdx], a)
		own[idIdx][a] = true
	}
	// waits for the accepted connection of (session, stream) and judges it
	expect := func(s *c18aSession, stepDesc string) bool {
		k := len(s.streams) - 1
		select {
		case a := <-accept:
			if a.err != "" || a.scen != scen&0xffff || a.sess != s.idx || a.stream != k {
				abandoned = fmt.Sprintf("%s: accepted connection is not stream %d of session %d: %+v", stepDesc, k, s.idx, a)
				return false
			}
			events = append(events, fmt.Sprintf("t%d", s.idx))
			outs = append(outs, a.addr)
			s.reported = append(s.reported, a.addr)
			q := fmt.Sprintf("scenario %d cap %d: %s | stream %d of session %d (ClientID #%d)", scen, capacity, strings.Join(desc, " "), k, s.idx, s.idNum)
			if strings.HasPrefix(a.addr, "panic") {
				r.OracleFail("attr-remoteaddr-panics", q, a.addr, "RemoteAddr() of an accepted connection must not panic")
				return true
			}
			// (1) one address per session
			if k > 0 && a.addr != s.reported[0] {
				r.OracleFail("attr-address-changed-between-streams", q, fmt.Sprintf("stream 0 reported %s, stream %d reports %s", c18aShow(s.reported[0]), k, c18aShow(a.addr)),
					"every stream of a session reports the address fixed when the session was established; carriers since the previous stream:"+s.lastEv)
			}
			// (2) never another session's address
			if a.addr != "none" && a.addr != "-" && !own[s.idx][a.addr] {
				for j := range own {
					if j != s.idx && own[j][a.addr] {
						r.OracleFail("attr-address-of-another-session", q, fmt.Sprintf("reports %s, presented only by carriers of ClientID #%d", c18aShow(a.addr), idNum[j]),
							"a reported address must have been presented by a carrier with the session's own ClientID")
					}
				}
			}
			// (3) the independent reference
			if a.addr != s.expected && (k == 0 || a.addr == s.reported[0]) {
				key := "attr-wrong-address"
				switch {
				case a.addr == "none":
					key = "attr-address-forgotten-within-capacity"
				case s.expected == "none":
					key = "attr-address-remembered-beyond-capacity"
				case own[s.idx][a.addr]:
					key = "attr-not-the-most-recent-carrier-at-establishment"
				}
				r.OracleFail(key, q, fmt.Sprintf("reports %s, expected %s", c18aShow(a.addr), c18aShow(s.expected)),
					"the address is the sanitised client_ip of the most recent carrier of the ClientID among the last `capacity` carriers when the session was established, else nil")
			}
			s.lastEv = ""
			return true
		case <-time.After(c18aStepTimeout):
			abandoned = stepDesc + ": the stream was not accepted in time"
			return false
		}
	}

	for _, st := range steps {
		if abandoned != "" {
			break
		}
		desc = append(desc, st.String())
		switch st.kind {
		case "orphan", "noise", "badtoken":
			idIdx := st.sess
			if st.kind == "noise" {
				idIdx = nSess + st.sess
			}
			ok, why := c18aDeadCarrier(serverAddr, st.ip, ids[idIdx], st.kind == "badtoken", rng)
			if !ok {
				abandoned = st.String() + ": " + why
				break
			}
			if st.kind != "badtoken" { // a carrier without the token presents no ClientID: no event
				carrier(idIdx, st.ip)
				note(idIdx, st.String())
			}
		case "open", "late":
			s := sessions[st.sess]
			s.pc = c18aNewPC()
			if err := s.pc.attach(serverAddr, st.ip, s.id); err != nil {
				abandoned = st.String() + ": " + err.Error()
				break
			}
			carrier(st.sess, st.ip)
			if st.kind == "late" {
				// barrier: the Set is visible (read-only peek; the address is fresh, valid and unique)
				if capacity > 0 {
					want := c18realAddr(st.ip.s)
					dl := time.Now().Add(5 * time.Second)
					for {
						a, ok := clientIDAddrMap.Get(s.id)
						if ok && a != nil && a.String() == want {
							break
						}
						if time.Now().After(dl) {
							r.Note("scenario %d: %s: the carrier's Set did not become visible within 5 s", scen, st.String())
							break
						}
						time.Sleep(200 * time.Microsecond)
					}
				} else {
					time.Sleep(20 * time.Millisecond)
				}
				break
			}
			fallthrough
		case "start":
			s := sessions[st.sess]
			if err := s.start(); err != nil {
				abandoned = st.String() + ": " + err.Error()
				break
			}
			s.opened = true
			s.expected = ref.get(s.idNum)
			events = append(events, fmt.Sprintf("e%d=%d", s.idx, s.idNum))
			if err := s.openStream(scen); err != nil {
				abandoned = st.String() + ": " + err.Error()
				break
			}
			expect(s, st.String())
		case "early":
			s := sessions[st.sess]
			s.pc = c18aNewPC()
			if err := s.pc.attach(serverAddr, st.ip, s.id); err != nil {
				abandoned = st.String() + ": " + err.Error()
				break
			}
			carrier(st.sess, st.ip)
			if err := s.startWith(true); err != nil {
				abandoned = st.String() + ": " + err.Error()
				break
			}
			// barrier: the server's KCP has acknowledged a keep-alive frame (its session exists), then time for
			// acceptSessions to hand it to acceptStreams
			// (the first acknowledgement sets the smoothed RTT - possibly to 0 ms on loopback - and recomputes the RTO)
			dl := time.Now().Add(c18aStepTimeout)
			acked := func() bool { return s.kconn.GetSRTT() > 0 || s.kconn.GetRTO() != 200 }
			for !acked() && time.Now().Before(dl) {
				time.Sleep(5 * time.Millisecond)
			}
			if !acked() {
				abandoned = st.String() + ": the keep-alive frames were not acknowledged in time"
				break
			}
			time.Sleep(400 * time.Millisecond)
			s.opened = true
			s.expected = ref.get(s.idNum)
			events = append(events, fmt.Sprintf("e%d=%d", s.idx, s.idNum))
		case "stream", "redial":
			s := sessions[st.sess]
			if st.kind == "redial" {
				if st.drop {
					s.pc.mu.Lock()
					s.pc.up = nil
					s.pc.mu.Unlock()
					s.pc.dropOld()
				}
				if err := s.pc.attach(serverAddr, st.ip, s.id); err != nil {
					abandoned = st.String() + ": " + err.Error()
					break
				}
				if st.drop {
					s.pc.dropOld()
				}
				carrier(st.sess, st.ip)
				note(st.sess, st.String())
			}
			if err := s.openStream(scen); err != nil {
				abandoned = st.String() + ": " + err.Error()
				break
			}
			expect(s, st.String())
		}
	}
	if abandoned != "" {
		r.Skip(fmt.Sprintf("attribution scenario %d abandoned (no verdict from it): %s", scen, abandoned))
		return false
	}
	// no further connection may appear
	select {
	case a := <-accept:
		r.Note("scenario %d: an extra connection was accepted: %+v", scen, a)
	case <-time.After(5 * time.Millisecond):
	}

	line := fmt.Sprintf("c18 attr %d %s", capacity, strings.Join(events, " "))
	real := "."
	if len(outs) > 0 {
		real = strings.Join(outs, ",")
	}
	hasNone, hasRedial, hasLate := false, false, false
	for _, o := range outs {
		hasNone = hasNone || o == "none"
	}
	for _, st := range steps {
		hasRedial = hasRedial || st.kind == "redial"
		hasLate = hasLate || st.kind == "late"
	}
	capClass := fmt.Sprintf("cap%d", capacity)
	if capacity == clientIDAddrMapCapacity {
		capClass = "cap-const"
	}
	r.Case(fmt.Sprintf("attr/%s/sessions%d/redial=%v/late=%v/nil=%v", capClass, nSess, hasRedial, hasLate, hasNone), line+" | "+strings.Join(desc, " "), len(outs) > 0)
	r.Compare("attribution", line+" | "+strings.Join(desc, " "), real, r.Model(line))
	return true
}

func TestVerifC18Attribution(t *testing.T) {
	r := vh.Start("C18")
	defer r.Finish()
	rng := r.Rng
	log.SetOutput(ioutil.Discard)
	if len(clientIDAddrMap.entries) != clientIDAddrMapCapacity {
		r.OracleFail("global-map-capacity", "clientIDAddrMap", fmt.Sprintf("len(entries)=%d const=%d", len(clientIDAddrMap.entries), clientIDAddrMapCapacity),
			"the server's map must have the capacity clientIDAddrMapCapacity")
	}
	orig := clientIDAddrMap
	defer func() { clientIDAddrMap = orig }()
	budget := time.Duration(r.N(75, 600)) * time.Second
	t0 := time.Now()
	n, done := r.N(60, 600), 0
	for scen := 0; scen < n; scen++ {
		if time.Since(t0) > budget {
			r.Note("attribution: time budget reached after %d of %d scenarios", scen, n)
			break
		}
		capacity := clientIDAddrMapCapacity
		replace := scen > 0 // scenario 0 runs on the package's own, untouched map
		if scen > 0 {
			switch rng.Intn(10) {
			case 0:
				capacity = 0
			case 1:
				capacity = 1
			case 2, 3:
				capacity = 2
			case 4:
				capacity = 3
			case 5:
				capacity = 4
			}
		}
		if c18aScenario(t, r, rng, scen, capacity, replace) {
			done++
		}
	}
	if done*2 < n {
		r.Note("attribution: only %d of %d scenarios reached a verdict", done, n)
	}
}
