//go:build verif

package amp

// C10 correspondence + oracle harness (virtual file in common/amp via -overlay).
//
// Correspondence: real base64 / NewArmorEncoder / x/net/html tokenizer / NewArmorDecoder against the
// Lean model (sfdriver "c10 ...").  Oracles (independent of Lean): round trip, independence from the
// write chunking / reader fragmentation / read sizes, invariance under re-separation and outside-markup
// insertions, shape of the encoder output, rejection of the malformed table, totality on arbitrary bytes.

import (
	"bytes"
	"encoding/base64"
	"errors"
	"fmt"
	"io"
	"math/rand"
	"runtime"
	"strings"
	"testing"
	"time"

	vh "git.torproject.org/pluggable-transports/snowflake.git/v2/common/zzverif"
	"golang.org/x/net/html"
)

// ---------------------------------------------------------------------------------------------
// readers

// c10ScriptReader delivers data according to a script of (k, eofWithData) entries: k = 0 is a (0, nil)
// read; when the script is exhausted it fills the buffer.
type c10ScriptReader struct {
	data   []byte
	script [][2]int
}

func (s *c10ScriptReader) Read(p []byte) (int, error) {
	if len(p) == 0 {
		return 0, nil
	}
	if len(s.script) == 0 {
		if len(s.data) == 0 {
			return 0, io.EOF
		}
		n := copy(p, s.data)
		s.data = s.data[n:]
		return n, nil
	}
	k, e := s.script[0][0], s.script[0][1]
	s.script = s.script[1:]
	if k == 0 {
		return 0, nil
	}
	if len(s.data) == 0 {
		return 0, io.EOF
	}
	if k > len(p) {
		k = len(p)
	}
	n := copy(p[:k], s.data)
	s.data = s.data[n:]
	if e == 1 && len(s.data) == 0 {
		return n, io.EOF
	}
	return n, nil
}

// c10ChunkReader is the Go twin of the model's base64 `Src`: one Read returns at most the rest of the
// current chunk; afterwards (0, fin).
type c10ChunkReader struct {
	chunks [][]byte
	fin    error
}

func (c *c10ChunkReader) Read(p []byte) (int, error) {
	for len(c.chunks) > 0 && len(c.chunks[0]) == 0 {
		c.chunks = c.chunks[1:]
	}
	if len(c.chunks) == 0 {
		return 0, c.fin
	}
	n := copy(p, c.chunks[0])
	c.chunks[0] = c.chunks[0][n:]
	return n, nil
}

type c10RecWriter struct{ writes [][]byte }

func (w *c10RecWriter) Write(p []byte) (int, error) {
	w.writes = append(w.writes, append([]byte(nil), p...))
	return len(p), nil
}

func c10GenScript(rng *rand.Rand, dataLen int) [][2]int {
	var sc [][2]int
	n := rng.Intn(12)
	switch rng.Intn(5) {
	case 0:
		n = dataLen + rng.Intn(4)
		if n > 3000 {
			n = 3000
		}
	case 1:
		n = 0
	}
	run0 := 0
	for i := 0; i < n; i++ {
		k := 0
		switch rng.Intn(6) {
		case 0:
			k = 0
		case 1, 2:
			k = 1
		case 3:
			k = 1 + rng.Intn(4)
		case 4:
			k = 1 + rng.Intn(100)
		default:
			k = 1 + rng.Intn(5000)
		}
		if k == 0 {
			run0++
			if run0 > 20 { // readAtLeastOneByte gives up after 100 empty reads; stay far below
				k = 1
			}
		}
		if k != 0 {
			run0 = 0
		}
		sc = append(sc, [2]int{k, rng.Intn(2)})
	}
	return sc
}

// ---------------------------------------------------------------------------------------------
// canonical outcomes

func c10List(cs [][]byte) string {
	if len(cs) == 0 {
		return "."
	}
	parts := make([]string, len(cs))
	for i, c := range cs {
		parts[i] = vh.Hex(c)
	}
	return strings.Join(parts, ",")
}

func c10Sizes(sizes []int) string {
	parts := make([]string, len(sizes))
	for i, s := range sizes {
		parts[i] = fmt.Sprint(s)
	}
	return strings.Join(parts, ",")
}

func c10ErrClass(err error) string {
	var uv ErrUnknownVersion
	var ci base64.CorruptInputError
	switch {
	case err == nil:
		return "nil"
	case err == io.EOF:
		return "eof"
	case err == io.ErrUnexpectedEOF:
		return "unexpectedEOF"
	case errors.As(err, &uv):
		return fmt.Sprintf("unknownVersion:%d", byte(uv))
	case errors.As(err, &ci):
		return "corrupt"
	case err == html.ErrBufferExceeded:
		return "bufExceeded"
	case err.Error() == "missing </pre> tag":
		return "missingPre"
	case strings.HasPrefix(err.Error(), "unexpected </"):
		// the message is "unexpected </>": TagName() has already consumed the name when Token() is called
		return "strayPre"
	case strings.HasPrefix(err.Error(), "unexpected <"):
		return "nestedPre"
	}
	return "other:" + err.Error()
}

type c10Outcome struct {
	line string // canonical
	out  []byte
	ok   bool // decoded to the end without error
}

// c10Decode runs the real decoder on r, reading with the given buffer sizes (cycled).
func c10Decode(r io.Reader, sizes []int) c10Outcome {
	type res struct{ o c10Outcome }
	ch := make(chan res, 1)
	go func() {
		var o c10Outcome
		defer func() {
			if x := recover(); x != nil {
				o.line = fmt.Sprintf("panic:%v", x)
				o.ok = false
			}
			ch <- res{o}
		}()
		dec, err := NewArmorDecoder(r)
		if err != nil {
			o.line = "init " + c10ErrClass(err)
			return
		}
		var out []byte
		var rerr error
		for i := 0; ; i++ {
			sz := sizes[i%len(sizes)]
			buf := make([]byte, sz)
			n, err := dec.Read(buf)
			out = append(out, buf[:n]...)
			if err != nil {
				rerr = err
				break
			}
			if i > 10000000 {
				rerr = fmt.Errorf("no progress")
				break
			}
		}
		o.out = out
		if rerr == io.EOF {
			o.line = "read " + vh.Hex(out) + " ok"
			o.ok = true
		} else {
			o.line = "read " + vh.Hex(out) + " " + c10ErrClass(rerr)
		}
	}()
	select {
	case x := <-ch:
		return x.o
	case <-time.After(30 * time.Second):
		c10Blocked++
		return c10Outcome{line: "blocked"}
	}
}

// c10Encode runs the real encoder under a deadline (a broken encoder loop must not hang the check).
func c10Encode(chunks [][]byte) ([]byte, string) {
	type res struct {
		out []byte
		st  string
	}
	ch := make(chan res, 1)
	go func() {
		out, st := c10EncodeRaw(chunks)
		ch <- res{out, st}
	}()
	select {
	case x := <-ch:
		return x.out, x.st
	case <-time.After(20 * time.Second):
		c10Blocked++
		return nil, "blocked"
	}
}

// c10Blocked counts calls that did not return within their deadline; after a few the run is abandoned.
var c10Blocked int

func c10EncodeRaw(chunks [][]byte) (out []byte, status string) {
	defer func() {
		if x := recover(); x != nil {
			status = fmt.Sprintf("panic:%v", x)
		}
	}()
	var buf bytes.Buffer
	enc, err := NewArmorEncoder(&buf)
	if err != nil {
		return nil, "err:" + err.Error()
	}
	for _, c := range chunks {
		n, err := enc.Write(c)
		if err != nil || n != len(c) {
			return buf.Bytes(), fmt.Sprintf("write:%d,%v", n, err)
		}
	}
	if err := enc.Close(); err != nil {
		return buf.Bytes(), "close:" + err.Error()
	}
	return buf.Bytes(), "ok"
}

// c10Tokens: the real tokenizer's token stream in the model's notation.
func c10Tokens(doc []byte) (line string) {
	defer func() {
		if x := recover(); x != nil {
			line = fmt.Sprintf("panic:%v", x)
		}
	}()
	z := html.NewTokenizer(bytes.NewReader(doc))
	z.SetMaxBuf(elementSizeLimit)
	var parts []string
	for {
		tt := z.Next()
		switch tt {
		case html.ErrorToken:
			end := "other:" + fmt.Sprint(z.Err())
			if z.Err() == io.EOF {
				end = "eof"
			} else if z.Err() == html.ErrBufferExceeded {
				end = "exceeded"
			}
			if len(parts) == 0 {
				return ". " + end
			}
			return strings.Join(parts, ",") + " " + end
		case html.TextToken:
			parts = append(parts, "T:"+vh.Hex(z.Text()))
		case html.StartTagToken:
			tn, _ := z.TagName()
			parts = append(parts, "S:"+vh.Hex(tn))
		case html.EndTagToken:
			tn, _ := z.TagName()
			parts = append(parts, "E:"+vh.Hex(tn))
		case html.SelfClosingTagToken:
			tn, _ := z.TagName()
			parts = append(parts, "X:"+vh.Hex(tn))
		case html.CommentToken:
			parts = append(parts, "C")
		case html.DoctypeToken:
			parts = append(parts, "D")
		}
	}
}

// ---------------------------------------------------------------------------------------------
// shape oracle (independent restatement of "boilerplate + pre elements of bounded words")

func c10IsB64(b byte) bool {
	return b >= 'A' && b <= 'Z' || b >= 'a' && b <= 'z' || b >= '0' && b <= '9' || b == '+' || b == '/' || b == '='
}

// c10Shape returns "" when doc is boilerplateStart + (<pre>\n (word\n)+ </pre>\n)+ + boilerplateEnd with every
// word 1..32 base64 bytes, the very first one starting with the version byte '0', every element's text
// (between <pre> and </pre>) shorter than 32 KiB; otherwise a description of the first deviation.
// It also returns the concatenated words.
func c10Shape(doc []byte) (string, []byte) {
	if !bytes.HasPrefix(doc, []byte(boilerplateStart)) {
		return "boilerplate header missing", nil
	}
	if !bytes.HasSuffix(doc, []byte(boilerplateEnd)) {
		return "boilerplate trailer missing", nil
	}
	mid := doc[len(boilerplateStart) : len(doc)-len(boilerplateEnd)]
	var all []byte
	first := true
	nel := 0
	for len(mid) > 0 {
		if !bytes.HasPrefix(mid, []byte("<pre>\n")) {
			return fmt.Sprintf("element %d does not start with <pre>\\n", nel), nil
		}
		mid = mid[len("<pre>\n"):]
		end := bytes.Index(mid, []byte("</pre>\n"))
		if end < 0 {
			return fmt.Sprintf("element %d is not closed by </pre>\\n", nel), nil
		}
		text := mid[:end]
		mid = mid[end+len("</pre>\n"):]
		if len(text)+1 >= 32*1024 {
			return fmt.Sprintf("element %d has %d bytes of text (limit 32 KiB)", nel, len(text)+1), nil
		}
		if len(text) == 0 || text[len(text)-1] != '\n' {
			return fmt.Sprintf("element %d text does not end with a newline", nel), nil
		}
		ws := bytes.Split(text[:len(text)-1], []byte("\n"))
		for _, w := range ws {
			if len(w) < 1 || len(w) > 32 {
				return fmt.Sprintf("element %d has a word of %d bytes", nel, len(w)), nil
			}
			ww := w
			if first {
				if w[0] != '0' {
					return "first word does not start with the version byte '0'", nil
				}
				ww = w[1:]
				first = false
			}
			for _, b := range ww {
				if !c10IsB64(b) {
					return fmt.Sprintf("element %d has a non-base64 byte %q", nel, b), nil
				}
			}
			all = append(all, ww...)
		}
		nel++
	}
	if nel == 0 {
		return "no pre element", nil
	}
	return "", all
}

// ---------------------------------------------------------------------------------------------
// generators

func c10Payload(rng *rand.Rand, n int) []byte {
	p := make([]byte, n)
	switch rng.Intn(4) {
	case 0: // text-like
		for i := range p {
			p[i] = byte(32 + rng.Intn(95))
		}
	case 1: // bytes whose base64 uses '+', '/'
		for i := range p {
			p[i] = byte(0xf8 + rng.Intn(8))
		}
	default:
		rng.Read(p)
	}
	return p
}

func c10RandomChunking(rng *rand.Rand, p []byte) [][]byte {
	var cs [][]byte
	rest := p
	for len(rest) > 0 {
		var n int
		switch rng.Intn(5) {
		case 0:
			n = 1
		case 1:
			n = 1 + rng.Intn(4)
		case 2:
			n = 1 + rng.Intn(100)
		case 3:
			n = 1 + rng.Intn(3000)
		default:
			n = 1 + rng.Intn(len(rest))
		}
		if n > len(rest) {
			n = len(rest)
		}
		if rng.Intn(8) == 0 {
			cs = append(cs, []byte{})
		}
		cs = append(cs, rest[:n])
		rest = rest[n:]
	}
	if rng.Intn(4) == 0 {
		cs = append(cs, []byte{})
	}
	return cs
}

// all compositions of p into consecutive non-empty pieces
func c10AllChunkings(p []byte) [][][]byte {
	n := len(p)
	if n == 0 {
		return [][][]byte{{}, {{}}, {{}, {}}}
	}
	var out [][][]byte
	for mask := 0; mask < 1<<uint(n-1); mask++ {
		var cs [][]byte
		start := 0
		for i := 0; i < n-1; i++ {
			if mask&(1<<uint(i)) != 0 {
				cs = append(cs, p[start:i+1])
				start = i + 1
			}
		}
		cs = append(cs, p[start:])
		out = append(out, cs)
	}
	return out
}

var c10WsBytes = []byte{'\t', '\n', '\f', '\r', ' '}

func c10WsRun(rng *rand.Rand, max int) []byte {
	n := 1
	switch rng.Intn(4) {
	case 0:
		n = 1 + rng.Intn(3)
	case 1:
		n = 1 + rng.Intn(max)
	}
	if n > max {
		n = max
	}
	if n < 1 {
		n = 1
	}
	b := make([]byte, n)
	for i := range b {
		b[i] = c10WsBytes[rng.Intn(len(c10WsBytes))]
	}
	return b
}

// c10Reseparate rewrites every separator inside the pre elements of a real armor document with a random
// non-empty run of ASCII whitespace (keeping each element's text below the tokenizer limit).
func c10Reseparate(rng *rand.Rand, doc []byte) []byte {
	start := []byte(boilerplateStart)
	mid := doc[len(start) : len(doc)-len(boilerplateEnd)]
	var out []byte
	out = append(out, start...)
	for len(mid) > 0 {
		mid = mid[len("<pre>\n"):]
		end := bytes.Index(mid, []byte("</pre>\n"))
		text := mid[:end]
		mid = mid[end+len("</pre>\n"):]
		ws := bytes.Split(text[:len(text)-1], []byte("\n"))
		budget := 32*1024 - 3 - len(text) - 1 // extra whitespace this element may take
		if budget < 0 {
			budget = 0
		}
		out = append(out, "<pre>"...)
		var el []byte
		if rng.Intn(3) != 0 { // leading run may be empty
			run := c10WsRun(rng, 1+budget/4)
			budget -= len(run) - 1
			el = append(el, run...)
		} else {
			budget++
		}
		for i, w := range ws {
			el = append(el, w...)
			if i == len(ws)-1 && rng.Intn(3) == 0 {
				break // trailing run may be empty
			}
			max := 1
			if budget > 0 {
				max = 1 + budget/2
			}
			run := c10WsRun(rng, max)
			budget -= len(run) - 1
			el = append(el, run...)
		}
		out = append(out, el...)
		out = append(out, "</pre>"...)
		out = append(out, c10WsRun(rng, 5)...)
	}
	out = append(out, boilerplateEnd...)
	return out
}

var c10RawNames = []string{"script", "style", "noscript", "title", "textarea", "iframe", "noembed", "noframes", "xmp"}
var c10TagNames = []string{"p", "div", "span", "b", "br", "img", "a", "prefix", "pr", "PREX", "pre-x", "html", "amp-img", "h1", "Table"}
var c10TextAlphabet = []byte("abc XYZ 0123 \n\t=+/>\"'-!?;:.,{}()[]pre PRE /pre")

func c10Text(rng *rand.Rand, n int) []byte {
	b := make([]byte, n)
	for i := range b {
		b[i] = c10TextAlphabet[rng.Intn(len(c10TextAlphabet))]
	}
	return b
}

func c10Attrs(rng *rand.Rand) string {
	s := ""
	for i, n := 0, rng.Intn(4); i < n; i++ {
		s += []string{" ", "\n", "  ", "\t"}[rng.Intn(4)]
		key := []string{"class", "href", "data-x", "pre", "a", "async", "ID"}[rng.Intn(7)]
		switch rng.Intn(6) {
		case 0:
			s += key
		case 1:
			s += key + "=" + []string{"x", "1", "pre", "a/b", "<pre"}[rng.Intn(5)]
		case 2:
			s += key + `="` + []string{"x", "a > b", "<pre>", "</pre>", "it's", ""}[rng.Intn(6)] + `"`
		case 3:
			s += key + `='` + []string{"x", "a > b", "<pre>", `say "hi"`, ""}[rng.Intn(5)] + `'`
		case 4:
			s += key + " = " + `"` + "v>w" + `"`
		default:
			s += key + "= y"
		}
	}
	return s
}

// c10Filler: a sequence of complete tokens, none of which is a pre tag, drawn from the modelled grammar.
func c10Filler(rng *rand.Rand) []byte {
	var out []byte
	for i, n := 0, 1+rng.Intn(4); i < n; i++ {
		switch rng.Intn(12) {
		case 0, 1:
			out = append(out, c10Text(rng, rng.Intn(30))...)
		case 2:
			out = append(out, "<!--"...)
			out = append(out, []string{"", " x ", "<pre>", " a > b ", "-", "--", "->", " </pre> -- > ", "x!", "x--!y", " <pre>0AAAA</pre> "}[rng.Intn(11)]...)
			out = append(out, []string{"-->", "--!>"}[rng.Intn(2)]...)
		case 3:
			out = append(out, []string{"<!DOCTYPE html>", "<!doctype x y>", "<!DOC pre>", "<!>", "<!x>", "<?xml version=\"1.0\"?>", "<?>", "</>", "</ pre>", "</3>", "<!-->", "<!--->", "<!doctypehtml>"}[rng.Intn(13)]...)
		case 4, 5:
			out = append(out, "<"+c10TagNames[rng.Intn(len(c10TagNames))]+c10Attrs(rng)+[]string{">", "/>", " >", " />", "/ >"}[rng.Intn(5)]...)
		case 6:
			out = append(out, "</"+c10TagNames[rng.Intn(len(c10TagNames))]+[]string{">", " >", " x=y>", "/>", ` a=">">`}[rng.Intn(5)]...)
		case 7:
			out = append(out, "< "...)
			out = append(out, []string{"<<", "<3", "a<3", "<=", "< pre>", "<\n"}[rng.Intn(6)]...)
			out = append(out, ' ')
		default:
			name := c10RawNames[rng.Intn(len(c10RawNames))]
			open := name
			if rng.Intn(3) == 0 {
				open = strings.ToUpper(name)
			}
			content := []string{"", "x", "<pre>", "</pre>", "<pre>0AAAA</pre>", "a < b > c", "</" + name + "x>", "</", "<", "</scrip", "<p>text</p>",
				"<!-- <pre> -->", "var s = '<pre>';\n", "</pre\n>", "< /" + name + ">"}[rng.Intn(15)]
			if name == "script" {
				content = []string{"", "x", "<pre>", "</pre>", "<!-- <script> </script> -->", "<!--<script>x</script>y-->", "<!-- x --> <pre>", "<!--", "<!-", "<!--<scriptx></script>",
					"<!--<script></scrip</script>-->", "if (a < b) { pre }", "<!-->", "<!--->x", "<!-- <pre> -- > </pre> ---->", "<!--<SCRIPT >-</SCRIPT >--->", "<!--<script/>a</script/>b-->"}[rng.Intn(17)]
			}
			closeName := name
			if rng.Intn(3) == 0 {
				closeName = strings.ToUpper(name)
			}
			out = append(out, "<"+open+c10Attrs(rng)+">"+content+"</"+closeName+[]string{">", " >", "\n>", "/>", " x>"}[rng.Intn(5)]...)
		}
	}
	// the filler must leave the tokenizer in plain text state: end with harmless text or nothing
	if rng.Intn(2) == 0 {
		out = append(out, c10WsRun(rng, 3)...)
	}
	return out
}

// c10SafePoints: offsets of a real armor document outside the pre elements at which the tokenizer is
// between tokens in plain text state: line starts of the boilerplate (not inside the style line),
// between elements, start and end of the document.
func c10SafePoints(doc []byte) []int {
	var pts []int
	bs := len(boilerplateStart)
	pts = append(pts, 0)
	for i := 0; i < bs; i++ {
		if boilerplateStart[i] == '\n' {
			pts = append(pts, i+1)
		}
	}
	mid := doc[bs : len(doc)-len(boilerplateEnd)]
	off := bs
	for len(mid) > 0 {
		end := bytes.Index(mid, []byte("</pre>\n")) + len("</pre>\n")
		off += end
		mid = mid[end:]
		pts = append(pts, off)
	}
	pts = append(pts, len(doc)-len("</html>"), len(doc))
	return pts
}

func c10Insert(rng *rand.Rand, doc []byte) []byte {
	pts := c10SafePoints(doc)
	k := 1 + rng.Intn(4)
	chosen := map[int][]byte{}
	for i := 0; i < k; i++ {
		chosen[pts[rng.Intn(len(pts))]] = c10Filler(rng)
	}
	var out []byte
	for i := 0; i <= len(doc); i++ {
		if f, ok := chosen[i]; ok {
			out = append(out, f...)
		}
		if i < len(doc) {
			out = append(out, doc[i])
		}
	}
	return out
}

var c10Palette = []byte("<>/=!-\n \t\r\f\"'preRE0A+?scitx\x00")

func c10Mutate(rng *rand.Rand, doc []byte) []byte {
	out := append([]byte(nil), doc...)
	for i, n := 0, 1+rng.Intn(3); i < n && len(out) > 0; i++ {
		pos := rng.Intn(len(out))
		if rng.Intn(2) == 0 && len(out) > len(boilerplateStart) {
			// prefer the armor part over the boilerplate
			pos = len(boilerplateStart) - 8 + rng.Intn(len(out)-len(boilerplateStart)+8)
		}
		var b byte
		if rng.Intn(3) == 0 {
			b = byte(rng.Intn(256))
		} else {
			b = c10Palette[rng.Intn(len(c10Palette))]
		}
		switch rng.Intn(4) {
		case 0:
			out[pos] = b
		case 1:
			out = append(out[:pos], out[pos+1:]...)
		case 2:
			out = append(out[:pos], append([]byte{b}, out[pos:]...)...)
		default:
			out = out[:pos]
		}
	}
	return out
}

type c10Malformed struct {
	name   string
	doc    string
	expect string // canonical outcome class expected from the property text ("" = only compare with the model)
}

func c10Long(n int, b byte) string { return strings.Repeat(string([]byte{b}), n) }

func c10MalformedTable() []c10Malformed {
	words := func(n int) string { // n words "AAAA…\n" of 32 bytes
		return strings.Repeat(c10Long(32, 'A')+"\n", n)
	}
	return []c10Malformed{
		{"empty", "", "init eof"},
		{"no-pre", "<html><body>0AAAA</body></html>", "init eof"},
		{"empty-pre", "<pre></pre>", "init eof"},
		{"ws-only-pre", "<pre> \n\t\f\r </pre>", "init eof"},
		{"version-only", "<pre>0</pre>", "read - ok"},
		{"ok-small", "<pre>\n0aGk=\n</pre>\n", "read 6869 ok"},
		{"ok-uppercase-tags", "<PRE>\n0aGk=\n</PRE >\n", "read 6869 ok"},
		{"ok-attrs", "<pre class=\"x>y\" data-a='>'>0aGk=</pre x>", "read 6869 ok"},
		{"ok-split-padding", "<pre>0aGk</pre>junk<pre>=</pre>", "read 6869 ok"},
		{"ok-split-version", "<pre>0</pre><pre>aGk=</pre>", "read 6869 ok"},
		{"unknown-version-1", "<pre>\n1aGk=\n</pre>", "init unknownVersion:49"},
		{"unknown-version-A", "<pre>AaGk=</pre>", "init unknownVersion:65"},
		{"unknown-version-eq", "<pre>=</pre>", "init unknownVersion:61"},
		{"unknown-version-nul", "<pre>\x000aGk=</pre>", "init unknownVersion:0"},
		{"stray-end", "</pre><pre>0aGk=</pre>", "init strayPre"},
		{"stray-end-after", "<pre>0aGk=</pre></pre>", "error strayPre"},
		{"stray-end-uppercase", "<pre>0aGk=</pre>\n</PRE>", "error strayPre"},
		{"nested", "<pre>0aGk=<pre></pre></pre>", "error nestedPre"},
		{"nested-attrs", "<pre>0aGk=<pre a=\"b\"></pre></pre>", "error nestedPre"},
		{"nested-first", "<pre><pre>0aGk=</pre></pre>", "init nestedPre"},
		{"missing-end", "<pre>\n0aGk=\n", "error missingPre"},
		{"missing-end-empty", "<pre>", "init missingPre"},
		{"missing-end-second", "<pre>0aGk=</pre><pre>", "error missingPre"},
		{"eof-in-end-tag", "<pre>0aGk=</pre", "error missingPre"},
		{"eof-in-end-open", "<pre>0aGk=</", "error"},
		{"eof-in-start-tag", "<pre", "init eof"},
		{"self-closing-pre", "<pre/>0aGk=</pre>", "init strayPre"},
		{"bad-base64-char", "<pre>0aG!k=</pre>", "error corrupt"},
		{"bad-base64-short", "<pre>0aGk</pre>", "error unexpectedEOF"},
		{"bad-base64-padding-first", "<pre>0=aGk</pre>", "error corrupt"},
		{"mid-padding-one-word", "<pre>0aGk=aGk=</pre>", ""},
		{"mid-padding-separate-words", "<pre>0aGk= aGk=</pre>", ""},
		{"bad-base64-entity", "<pre>0aGk=&amp;</pre>", "error"},
		{"text-in-script-in-pre", "<pre>0<script>aGk=</script></pre>", "read 6869 ok"},
		{"comment-in-pre", "<pre>0aG<!-- x -->k=</pre>", "read 6869 ok"},
		{"tag-in-pre", "<pre>0aG<b>k=</b></pre>", "read 6869 ok"},
		{"plaintext-swallows", "<plaintext><pre>0aGk=</pre>", "init eof"},
		{"pre-in-comment", "<!-- <pre>0aGk=</pre> -->", "init eof"},
		{"pre-in-style", "<style><pre>0aGk=</pre></style>", "init eof"},
		{"pre-in-attr", "<a href=\"<pre>0aGk=</pre>\">", "init eof"},
		{"element-text-32765", "<pre>0" + c10Long(32764, ' ') + "</pre>", "read - ok"},
		{"element-text-32766", "<pre>0" + c10Long(32765, ' ') + "</pre>", "error bufExceeded"},
		{"element-text-32767", "<pre>0" + c10Long(32766, ' ') + "</pre>", "error bufExceeded"},
		{"element-text-32768", "<pre>0" + c10Long(32767, ' ') + "</pre>", "error bufExceeded"},
		{"element-text-40000", "<pre>0" + c10Long(40000, ' ') + "</pre>", "error bufExceeded"},
		{"element-words-993", "<pre>\n0" + words(993) + "</pre>", "error bufExceeded"},
		{"element-words-992", "<pre>\n0AAAA\n" + words(991) + "</pre>", "read " + c10Long(2*(3+991*24), '0') + " ok"},
		{"long-word-in-pre", "<pre>0" + c10Long(32800, 'A') + "</pre>", "error bufExceeded"},
		{"long-text-outside", c10Long(32768, 'x') + "<pre>0aGk=</pre>", "init bufExceeded"},
		{"long-text-outside-after", "<pre>0aGk=</pre>" + c10Long(40000, 'x'), "error bufExceeded"},
		{"long-comment", "<!--" + c10Long(32768, 'x') + "--><pre>0aGk=</pre>", "init bufExceeded"},
		{"long-comment-32760", "<!--" + c10Long(32760, 'x') + "--><pre>0aGk=</pre>", "read 6869 ok"},
		{"long-tag", "<a href=\"" + c10Long(32768, 'x') + "\"><pre>0aGk=</pre>", "init bufExceeded"},
		{"long-style", "<style>" + c10Long(32768, 'x') + "</style><pre>0aGk=</pre>", "init bufExceeded"},
		{"long-whitespace-between", "<pre>0aGk=</pre>" + c10Long(32767, '\n') + "<p>", "error bufExceeded"},
		{"long-whitespace-between-32765", "<pre>0aGk=</pre>" + c10Long(32765, '\n') + "<p>", "read 6869 ok"},
	}
}

// ---------------------------------------------------------------------------------------------

func TestVerifC10(t *testing.T) {
	r := vh.Start("C10")
	defer r.Finish()
	rng := r.Rng

	// 0. isASCIIWhitespace on every byte
	{
		irng := rand.New(rand.NewSource(r.Seed + 77))
		var cs []string
		for i := 0; i < r.N(60, 600); i++ {
			n := irng.Intn(300)
			if irng.Intn(8) == 0 {
				n = 20000 + irng.Intn(30000)
			}
			cs = append(cs, string(c10Payload(irng, n)))
		}
		r.Independent("armor", "an armor encoder / decoder pair", cs, func(c string) string {
			var buf bytes.Buffer
			enc, err := NewArmorEncoder(&buf)
			if err != nil {
				return "enc-err"
			}
			half := len(c) / 2
			enc.Write([]byte(c[:half]))
			runtime.Gosched()
			enc.Write([]byte(c[half:]))
			enc.Close()
			doc := append([]byte{}, buf.Bytes()...)
			dec, err := NewArmorDecoder(bytes.NewReader(doc))
			if err != nil {
				return "dec-err " + vh.Hex(doc[:imin10(len(doc), 40)])
			}
			var out []byte
			b := make([]byte, 777)
			for {
				n, err := dec.Read(b)
				out = append(out, b[:n]...)
				runtime.Gosched()
				if err != nil {
					break
				}
			}
			return fmt.Sprintf("%d bytes of armor; decoded == payload: %v", len(doc), string(out) == c)
		})
	}
	for b := 0; b < 256; b++ {
		got := isASCIIWhitespace(byte(b))
		line := fmt.Sprintf("c10 ws %d", b)
		r.Case(fmt.Sprintf("ws/%v", got), line, true)
		r.Compare("isASCIIWhitespace", line, fmt.Sprint(got), r.Model(line))
		want := b == 9 || b == 10 || b == 12 || b == 13 || b == 32
		if got != want {
			r.OracleFail("ascii-whitespace-set", line, fmt.Sprint(got), "isASCIIWhitespace must be exactly {TAB, LF, FF, CR, SPACE}")
		}
	}

	// 1. base64 theory against encoding/base64
	c10Base64(r, rng)

	// 2. encoder: sizes straddling 3-byte groups, 32-byte words and the words-per-element boundary
	perElem := chunksPerElement*bytesPerChunk - 1 // base64 bytes in the first element
	b1 := perElem / 4 * 3                         // payload bytes around the first element boundary
	b2 := (2*chunksPerElement*bytesPerChunk - 1) / 4 * 3
	sizes := []int{0, 1, 2, 3, 4, 5, 6, 7, 8, 9, 20, 21, 22, 23, 24, 25, 26, 27, 45, 46, 47, 48, 49, 50, 95, 96, 97, 743, 744, 745,
		b1 - 4, b1 - 3, b1 - 2, b1 - 1, b1, b1 + 1, b1 + 2, b1 + 3, b1 + 4, b2 - 2, b2 - 1, b2, b2 + 1, b2 + 2, b2 + 3, 100000, 100001, 102400}
	if r.Thorough() {
		sizes = append(sizes, 3*b1, 3*b1+1, 300000, 1<<20+1)
	}
	for i := 0; i < r.N(60, 600); i++ {
		sizes = append(sizes, rng.Intn(1<<uint(1+rng.Intn(13))))
	}
	type armored struct {
		payload []byte
		doc     []byte
	}
	var docs []armored
	for _, n := range sizes {
		p := c10Payload(rng, n)
		one, st := c10Encode([][]byte{p})
		line := "c10 enc " + c10List([][]byte{p})
		r.Case(fmt.Sprintf("enc/oneshot/elems=%d", 1+(4*((n+2)/3))/(perElem+1)), fmt.Sprintf("c10 enc <%d bytes>", n), true)
		if st == "blocked" {
			r.OracleFail("encoder-hang", line, st, "the encoder must return")
			if c10Blocked >= 2 {
				r.Note("abandoned: the encoder does not return")
				return
			}
			continue
		}
		if st != "ok" {
			r.OracleFail("encoder-error", line, st, "the encoder must not fail on a writer that does not fail")
			continue
		}
		r.Compare("encode", line, vh.Hex(one), r.Model(line))
		if why, text := c10Shape(one); why != "" {
			r.OracleFail("shape", line, why, "armor must be boilerplate + pre elements of ≤32-byte base64 words, < 32 KiB per element")
		} else if string(text) != base64.StdEncoding.EncodeToString(p) {
			r.OracleFail("shape-content", line, "words differ from base64(payload)", "the words after the version byte must be the standard base64 of the payload")
		}
		docs = append(docs, armored{p, one})
		// write chunkings
		var chunkings [][][]byte
		if n <= 7 {
			chunkings = c10AllChunkings(p)
		}
		nr := 3
		if n > 50000 {
			nr = 1
		}
		for j := 0; j < nr; j++ {
			chunkings = append(chunkings, c10RandomChunking(rng, p))
		}
		for _, cs := range chunkings {
			got, st := c10Encode(cs)
			cl := "c10 enc " + c10List(cs)
			r.Case(fmt.Sprintf("enc/chunked/n<=7=%v", n <= 7), fmt.Sprintf("c10 enc <%d bytes in %d writes>", n, len(cs)), len(cs) > 1)
			if st != "ok" || !bytes.Equal(got, one) {
				r.OracleFail("encode-chunking", cl, st, "the armor must not depend on how the payload is split into Write calls")
			}
			if n < 20000 {
				r.Compare("encode-chunked", cl, vh.Hex(got), r.Model(cl))
			}
		}
	}

	// 3. decoder on valid armor: readers, read sizes, re-separation, outside insertions
	readSizes := [][]int{{512}, {1}, {2}, {3}, {4}, {5}, {1, 2, 3}, {7, 1, 1000}, {32768}, {3, 300}, {768}, {1024}, {769, 2}}
	for di, d := range docs {
		if c10Blocked >= 3 {
			r.Note("abandoned: too many calls did not return")
			return
		}
		big := len(d.doc) > 60000
		// whole document, several read sizes
		nsz := 4
		if big {
			nsz = 1
		}
		for j := 0; j < nsz; j++ {
			sz := readSizes[rng.Intn(len(readSizes))]
			if j == 0 {
				sz = []int{512}
			}
			o := c10Decode(bytes.NewReader(d.doc), sz)
			line := fmt.Sprintf("c10 dec %s %s", c10Sizes(sz), vh.Hex(d.doc))
			r.Case("dec/valid/sizes="+c10Sizes(sz), fmt.Sprintf("c10 dec %s <armor of %d bytes>", c10Sizes(sz), len(d.payload)), true)
			if !o.ok || !bytes.Equal(o.out, d.payload) {
				r.OracleFail("roundtrip", line, o.line, "decoding the armor of a payload must return the payload")
			}
			if !big || di%4 == 0 {
				r.Compare("decode-valid", line, o.line, r.Model(line))
			}
		}
		// io.ReadAll, as the client does
		if dec, err := NewArmorDecoder(bytes.NewReader(d.doc)); err != nil {
			r.OracleFail("roundtrip-readall", "readall "+vh.Hex(d.doc), "init "+err.Error(), "NewArmorDecoder must accept real armor")
		} else if got, err := io.ReadAll(dec); err != nil || !bytes.Equal(got, d.payload) {
			r.OracleFail("roundtrip-readall", "readall "+vh.Hex(d.doc), fmt.Sprint(err), "io.ReadAll of the decoder must return the payload")
		}
		// fragmenting readers
		nfr := 3
		if big {
			nfr = 1
		}
		for j := 0; j < nfr; j++ {
			sc := c10GenScript(rng, len(d.doc))
			sz := readSizes[rng.Intn(len(readSizes))]
			o := c10Decode(&c10ScriptReader{data: append([]byte(nil), d.doc...), script: sc}, sz)
			r.Case("dec/valid/fragmented", fmt.Sprintf("fragmented reader (%d script entries) sizes=%s <armor of %d bytes>", len(sc), c10Sizes(sz), len(d.payload)), len(sc) > 0)
			if !o.ok || !bytes.Equal(o.out, d.payload) {
				r.OracleFail("decode-reader-fragmentation", fmt.Sprintf("script=%v sizes=%s doc=%s", sc, c10Sizes(sz), vh.Hex(d.doc)), o.line,
					"decoding must not depend on how the document reader fragments its data")
			}
		}
		// re-separation
		nws := 2
		if big {
			nws = 1
		}
		for j := 0; j < nws; j++ {
			doc2 := c10Reseparate(rng, d.doc)
			sz := readSizes[rng.Intn(len(readSizes))]
			o := c10Decode(bytes.NewReader(doc2), sz)
			line := fmt.Sprintf("c10 dec %s %s", c10Sizes(sz), vh.Hex(doc2))
			r.Case("dec/reseparated", fmt.Sprintf("c10 dec %s <re-separated armor of %d bytes>", c10Sizes(sz), len(d.payload)), true)
			if !o.ok || !bytes.Equal(o.out, d.payload) {
				r.OracleFail("whitespace-invariance", line, o.line, "re-separating the words with any ASCII whitespace must not change the decoded payload")
			}
			if !big || di%4 == 0 {
				r.Compare("decode-reseparated", line, o.line, r.Model(line))
			}
		}
		// outside-markup insertions
		for j := 0; j < nws; j++ {
			doc2 := c10Insert(rng, d.doc)
			sz := readSizes[rng.Intn(len(readSizes))]
			o := c10Decode(bytes.NewReader(doc2), sz)
			line := fmt.Sprintf("c10 dec %s %s", c10Sizes(sz), vh.Hex(doc2))
			r.Case("dec/inserted", fmt.Sprintf("c10 dec %s <armor of %d bytes with outside markup>", c10Sizes(sz), len(d.payload)), true)
			if !o.ok || !bytes.Equal(o.out, d.payload) {
				r.OracleFail("outside-markup-invariance", line, o.line, "markup added outside the pre elements must not change the decoded payload")
			}
			if !big || di%4 == 0 {
				r.Compare("decode-inserted", line, o.line, r.Model(line))
				if !big {
					tl := "c10 tok " + vh.Hex(doc2)
					r.Compare("tokens-inserted", tl, c10Tokens(doc2), r.Model(tl))
				}
			}
		}
	}

	// 4. table of malformed documents
	for _, m := range c10MalformedTable() {
		doc := []byte(m.doc)
		for _, sz := range [][]int{{512}, {1}, {3}, {4096}} {
			o := c10Decode(bytes.NewReader(doc), sz)
			line := fmt.Sprintf("c10 dec %s %s", c10Sizes(sz), vh.Hex(doc))
			cls := o.line
			if i := strings.LastIndexByte(cls, ' '); strings.HasPrefix(cls, "read ") && i > 0 && !strings.HasSuffix(cls, " ok") {
				cls = "error " + cls[i+1:]
			}
			r.Case("dec/malformed/"+m.name, fmt.Sprintf("c10 dec %s <%s>", c10Sizes(sz), m.name), true)
			if !bytes.ContainsRune(doc, '&') {
				r.Compare("decode-malformed/"+m.name, line, o.line, r.Model(line))
				tl := "c10 tok " + vh.Hex(doc)
				r.Compare("tokens-malformed/"+m.name, tl, c10Tokens(doc), r.Model(tl))
			}
			switch {
			case m.expect == "":
			case m.expect == "error":
				if o.ok || strings.HasPrefix(o.line, "panic") || o.line == "blocked" {
					r.OracleFail("malformed-not-rejected/"+m.name, line, o.line, "this malformed document must be reported as an error")
				}
			case cls != m.expect:
				r.OracleFail("malformed-misclassified/"+m.name, line, o.line, "expected outcome "+m.expect)
			}
		}
	}

	// supporting evidence (not part of the property's statement, not an oracle): a caller that stops reading
	// after a read error leaves the decodeToWriter goroutine blocked in pw.Write — NewArmorDecoder returns a
	// plain io.Reader, there is nothing to close.  Recorded so that it is not mistaken for a hang of the call.
	{
		before := runtime.NumGoroutine()
		const k = 40
		for j := 0; j < k; j++ {
			doc := []byte("<pre>0aG!k=" + strings.Repeat(" AAAA", 50) + "</pre>")
			if dec, err := NewArmorDecoder(bytes.NewReader(doc)); err == nil {
				io.ReadAll(dec)
			}
		}
		time.Sleep(100 * time.Millisecond)
		r.Note("observation: after %d decodes that ended in a base64 error and were abandoned by the caller, %d goroutines remain blocked (decodeToWriter in pw.Write)", k, runtime.NumGoroutine()-before)
	}

	// 5. mutated armor and arbitrary bytes
	var small []armored
	for _, d := range docs {
		if len(d.payload) <= 100 {
			small = append(small, d)
		}
	}
	type raw struct {
		class string
		doc   []byte
	}
	var raws []raw
	for i := 0; i < r.N(700, 15000); i++ {
		d := small[rng.Intn(len(small))]
		raws = append(raws, raw{"mutated", c10Mutate(rng, d.doc)})
	}
	for i := 0; i < r.N(300, 6000); i++ {
		d := small[rng.Intn(len(small))]
		raws = append(raws, raw{"mutated-inserted", c10Mutate(rng, c10Insert(rng, d.doc))})
	}
	for i := 0; i < r.N(400, 8000); i++ {
		n := rng.Intn(200)
		var b []byte
		switch rng.Intn(4) {
		case 0:
			b = make([]byte, n)
			rng.Read(b)
		case 1:
			alpha := []byte("<>/pre PRE=!-\n\"'0Aa+;scriptSTYLEx\x00\r")
			if rng.Intn(8) == 0 {
				alpha = append(alpha, '&')
			}
			b = make([]byte, n)
			for j := range b {
				b[j] = alpha[rng.Intn(len(alpha))]
			}
		default:
			pieces := []string{"<pre>", "</pre>", "<pre", "</pre", ">", "<", "0", "aGk=", "AAAA", "QUJD", "=", " ", "\n", "<!--", "-->", "<script>", "</script>", "<style>", "</style>",
				"\"", "'", "/", "\x00", "\r", "<b>", "</b>", "<PRE >", "</PRE\n>", "<pre/>", "<!", "<?", "x", "<title>", "</title>", "<plaintext>", "a=", "0aGk=", "\t"}
			if rng.Intn(8) == 0 {
				pieces = append(pieces, "&amp;", "&")
			}
			for j, k := 0, rng.Intn(14); j < k; j++ {
				b = append(b, pieces[rng.Intn(len(pieces))]...)
			}
		}
		raws = append(raws, raw{"random", b})
	}
	for i := 0; i < r.N(40, 400); i++ {
		// fragments of the filler grammar with armor-like elements in between, then cut anywhere
		var b []byte
		for j, n := 0, 1+rng.Intn(5); j < n; j++ {
			b = append(b, c10Filler(rng)...)
			if rng.Intn(2) == 0 {
				b = append(b, "<pre>\n0aGVsbG8=\n</pre>\n"...)
			}
		}
		if rng.Intn(2) == 0 && len(b) > 0 {
			b = b[:rng.Intn(len(b))]
		}
		raws = append(raws, raw{"grammar-soup", b})
	}
	if r.Thorough() {
		for i := 0; i < 30; i++ {
			b := make([]byte, 30000+rng.Intn(80000))
			alpha := []byte("<>/pre =\n0Aa")
			for j := range b {
				b[j] = alpha[rng.Intn(len(alpha))]
			}
			raws = append(raws, raw{"random-large", b})
		}
	}
	for _, x := range raws {
		if c10Blocked >= 3 {
			r.Note("abandoned: too many calls did not return")
			return
		}
		sz := readSizes[rng.Intn(len(readSizes))]
		o := c10Decode(bytes.NewReader(x.doc), sz)
		line := fmt.Sprintf("c10 dec %s %s", c10Sizes(sz), vh.Hex(x.doc))
		cls := "err"
		switch {
		case o.ok:
			cls = "ok"
		case strings.HasPrefix(o.line, "init"):
			cls = o.line
			if strings.HasPrefix(cls, "init unknownVersion") {
				cls = "init unknownVersion"
			}
		case strings.HasPrefix(o.line, "read "):
			cls = "read-err " + o.line[strings.LastIndexByte(o.line, ' ')+1:]
		}
		inGrammar := !bytes.ContainsRune(x.doc, '&')
		r.Case(fmt.Sprintf("dec/%s/%s", x.class, cls), line, true)
		if strings.HasPrefix(o.line, "panic") {
			r.OracleFail("totality-panic", line, o.line, "the decoder must not panic on any input")
		}
		if o.line == "blocked" {
			r.OracleFail("totality-hang", line, o.line, "the decoder must return on any finite input")
		}
		if len(o.out) > len(x.doc) {
			r.OracleFail("totality-output-exceeds-input", line, o.line, "the decoder cannot produce more bytes than it was given")
		}
		// the same bytes through a fragmenting reader (zero-length reads, data+EOF): same outcome
		if len(x.doc) < 5000 {
			sc := c10GenScript(rng, len(x.doc))
			o2 := c10Decode(&c10ScriptReader{data: append([]byte(nil), x.doc...), script: sc}, sz)
			r.Case("dec/"+x.class+"/fragmented", fmt.Sprintf("script=%v %s", sc, line), len(sc) > 0)
			if o2.line != o.line {
				r.OracleFail("decode-reader-fragmentation", fmt.Sprintf("script=%v %s", sc, line), o2.line,
					"decoding must not depend on how the document reader fragments its data; whole: "+o.line)
			}
		}
		if inGrammar {
			r.Compare("decode-"+x.class, line, o.line, r.Model(line))
			tl := "c10 tok " + vh.Hex(x.doc)
			r.Compare("tokens-"+x.class, tl, c10Tokens(x.doc), r.Model(tl))
		} else {
			r.Case("dec/outside-modelled-grammar", line, false)
		}
	}
}

// c10Base64 checks the shared base64 theory against encoding/base64.
func c10Base64(r *vh.Run, rng *rand.Rand) {
	encs := []struct {
		name string
		enc  *base64.Encoding
	}{{"std", base64.StdEncoding}, {"url", base64.URLEncoding}, {"rawstd", base64.RawStdEncoding}, {"rawurl", base64.RawURLEncoding}}
	status := func(err error) string {
		if err == nil {
			return "ok"
		}
		var ci base64.CorruptInputError
		if errors.As(err, &ci) {
			return "corrupt"
		}
		return "other:" + err.Error()
	}
	for i := 0; i < r.N(400, 8000); i++ {
		e := encs[rng.Intn(len(encs))]
		n := rng.Intn(12)
		if rng.Intn(4) == 0 {
			n = rng.Intn(80)
		}
		p := c10Payload(rng, n)
		s := e.enc.EncodeToString(p)
		line := fmt.Sprintf("c10 b64enc %s %s", e.name, vh.Hex(p))
		r.Case("b64/enc/"+e.name, line, n > 0)
		r.Compare("b64-encode", line, vh.Hex([]byte(s)), r.Model(line))
		if (e.name == "url" || e.name == "rawurl") && strings.ContainsAny(s, "/+") {
			r.OracleFail("b64-url-alphabet", line, s, "URL-safe base64 must not contain '/' or '+'")
		}
		// decoding: the encoding itself, with newlines, mutated, truncated, random
		var ins []string
		ins = append(ins, s)
		withNL := []byte(s)
		for j, k := 0, rng.Intn(4); j < k; j++ {
			pos := rng.Intn(len(withNL) + 1)
			withNL = append(withNL[:pos], append([]byte{"\r\n"[rng.Intn(2)]}, withNL[pos:]...)...)
		}
		ins = append(ins, string(withNL))
		if len(s) > 0 {
			m := []byte(s)
			m[rng.Intn(len(m))] = []byte("=!-_+/A\n \x00\xff")[rng.Intn(11)]
			ins = append(ins, string(m), s[:rng.Intn(len(s))], s+s, s+"=", s+"\n", s+"A")
			pos := rng.Intn(len(m))
			ins = append(ins, s[:pos]+"="+s[pos:])
		}
		rb := make([]byte, rng.Intn(10))
		for j := range rb {
			rb[j] = []byte("AQg=\n\r-_+/!w")[rng.Intn(12)]
		}
		ins = append(ins, string(rb))
		for _, in := range ins {
			got, err := e.enc.DecodeString(in)
			dl := fmt.Sprintf("c10 b64dec %s %s", e.name, vh.Hex([]byte(in)))
			r.Case("b64/dec/"+e.name+"/"+status(err), dl, len(in) > 0)
			r.Compare("b64-decode", dl, vh.Hex(got)+" "+status(err), r.Model(dl))
		}
		if got, err := e.enc.DecodeString(s); err != nil || !bytes.Equal(got, p) {
			r.OracleFail("b64-roundtrip", line, fmt.Sprint(err), "DecodeString(EncodeToString(p)) must be p")
		}
		// streaming encoder: chunking independence and the exact underlying writes
		cs := c10RandomChunking(rng, p)
		w := &c10RecWriter{}
		se := base64.NewEncoder(e.enc, w)
		for _, c := range cs {
			se.Write(c)
		}
		se.Close()
		sl := fmt.Sprintf("c10 b64encs %s %s", e.name, c10List(cs))
		r.Case("b64/stream-enc/"+e.name, sl, len(cs) > 1)
		r.Compare("b64-stream-encode", sl, c10List(w.writes), r.Model(sl))
		if string(bytes.Join(w.writes, nil)) != s {
			r.OracleFail("b64-stream-encode-chunking", sl, c10List(w.writes), "streaming encoder output must equal the one-shot encoding")
		}
	}
	// larger streaming encoder inputs (block boundaries of the 1024-byte output buffer)
	for _, n := range []int{767, 768, 769, 770, 771, 1535, 1536, 1537, 3000} {
		p := c10Payload(rng, n)
		for j := 0; j < 3; j++ {
			cs := c10RandomChunking(rng, p)
			if j == 0 {
				cs = [][]byte{p}
			}
			w := &c10RecWriter{}
			se := base64.NewEncoder(base64.StdEncoding, w)
			for _, c := range cs {
				se.Write(c)
			}
			se.Close()
			sl := fmt.Sprintf("c10 b64encs std %s", c10List(cs))
			r.Case("b64/stream-enc/large", fmt.Sprintf("c10 b64encs std <%d bytes in %d writes>", n, len(cs)), true)
			r.Compare("b64-stream-encode", sl, c10List(w.writes), r.Model(sl))
		}
	}
	// streaming decoder
	for i := 0; i < r.N(500, 10000); i++ {
		e := encs[rng.Intn(len(encs))]
		n := rng.Intn(40)
		if rng.Intn(10) == 0 {
			n = 700 + rng.Intn(1500)
		}
		p := c10Payload(rng, n)
		s := []byte(e.enc.EncodeToString(p))
		class := "valid"
		switch rng.Intn(6) {
		case 0:
			if len(s) > 0 {
				s[rng.Intn(len(s))] = []byte("=!\n\r A")[rng.Intn(6)]
				class = "mutated"
			}
		case 1:
			s = append(s, []byte(e.enc.EncodeToString(c10Payload(rng, rng.Intn(5))))...)
			class = "concatenated"
		case 2:
			if len(s) > 0 {
				s = s[:rng.Intn(len(s))]
				class = "truncated"
			}
		case 3:
			for j, k := 0, 1+rng.Intn(4); j < k; j++ {
				pos := rng.Intn(len(s) + 1)
				s = append(s[:pos], append([]byte{"\r\n"[rng.Intn(2)]}, s[pos:]...)...)
			}
			class = "newlines"
		}
		chunks := c10RandomChunking(rng, s)
		var sz []int
		for j, k := 0, 1+rng.Intn(3); j < k; j++ {
			sz = append(sz, []int{1, 2, 3, 4, 5, 6, 7, 100, 512, 768, 769, 1024, 4096}[rng.Intn(13)])
		}
		fin := 0
		var finErr error = io.EOF
		if rng.Intn(4) == 0 {
			fin = 1 + rng.Intn(4)
			finErr = fmt.Errorf("other:%d", fin)
		}
		var cp [][]byte
		for _, c := range chunks {
			cp = append(cp, append([]byte(nil), c...))
		}
		dec := base64.NewDecoder(e.enc, &c10ChunkReader{chunks: cp, fin: finErr})
		var out []byte
		var rerr error
		for k := 0; ; k++ {
			buf := make([]byte, sz[k%len(sz)])
			nn, err := dec.Read(buf)
			out = append(out, buf[:nn]...)
			if err != nil {
				rerr = err
				break
			}
		}
		es := "other:?"
		var ci base64.CorruptInputError
		switch {
		case rerr == io.EOF:
			es = "eof"
		case rerr == io.ErrUnexpectedEOF:
			es = "unexpectedEOF"
		case errors.As(rerr, &ci):
			es = "corrupt"
		case strings.HasPrefix(rerr.Error(), "other:"):
			es = rerr.Error()
		}
		line := fmt.Sprintf("c10 b64stream %s %s %d %s", e.name, c10Sizes(sz), fin, c10List(chunks))
		r.Case("b64/stream-dec/"+e.name+"/"+class+"/"+strings.SplitN(es, ":", 2)[0], line, len(s) > 0)
		r.Compare("b64-stream-decode", line, vh.Hex(out)+" "+es, r.Model(line))
		if class == "valid" && fin == 0 && (es != "eof" || !bytes.Equal(out, p)) {
			r.OracleFail("b64-stream-roundtrip", line, vh.Hex(out)+" "+es, "streaming decode of a valid encoding must return the data for any chunking and read sizes")
		}
	}
}

func imin10(a, b int) int {
	if a < b {
		return a
	}
	return b
}
