//go:build verif

package main

// C14 harness (virtual file in /repo/broker): the real broker *binary*, built from the working tree,
// receives generated request sequences over raw TCP; the (status, body, connection dropped) outcome is
// compared with the Lean model of the HTTP shell, whose abstract "core result" input is obtained from
// the real IPC methods on an in-process twin broker with the same configuration (empty pool), or is
// known by construction in the scripted matched / timed-out flows.  Oracles (independent of the model):
// every request gets a complete, well-formed HTTP response in bounded time; the server keeps serving;
// a legacy request is answered with the image of its versioned equivalent's answer.

import (
	"bufio"
	"bytes"
	"encoding/json"
	"fmt"
	"io"
	"math/rand"
	"net"
	"net/http"
	"net/http/httptest"
	"os"
	"os/exec"
	"path/filepath"
	"sort"
	"strings"
	"sync"
	"sync/atomic"
	"syscall"
	"testing"
	"time"

	"git.torproject.org/pluggable-transports/snowflake.git/v2/common/amp"
	"git.torproject.org/pluggable-transports/snowflake.git/v2/common/messages"
	vh "git.torproject.org/pluggable-transports/snowflake.git/v2/common/zzverif"
)

type c14Resp struct {
	dropped bool
	status  int
	body    []byte
	err     string
	elapsed time.Duration
}

func (r c14Resp) canon() string {
	if r.dropped {
		return "dropped"
	}
	return fmt.Sprintf("%d %s", r.status, vh.Hex(r.body))
}

// c14Do sends raw bytes on a fresh connection and reads one response.
func c14Do(addr string, raw []byte, method string, deadline time.Duration) c14Resp {
	t0 := time.Now()
	conn, err := net.DialTimeout("tcp", addr, 5*time.Second)
	if err != nil {
		return c14Resp{dropped: true, err: "dial: " + err.Error()}
	}
	defer conn.Close()
	conn.SetDeadline(time.Now().Add(deadline))
	go func() {
		// write in the background: the server may answer (400) before reading a huge body
		conn.Write(raw)
	}()
	br := bufio.NewReader(conn)
	resp, err := http.ReadResponse(br, &http.Request{Method: method})
	if err != nil {
		return c14Resp{dropped: true, err: err.Error(), elapsed: time.Since(t0)}
	}
	body, err := io.ReadAll(resp.Body)
	if err != nil {
		return c14Resp{dropped: true, err: "body: " + err.Error(), elapsed: time.Since(t0)}
	}
	return c14Resp{status: resp.StatusCode, body: body, elapsed: time.Since(t0)}
}

func c14Raw(method, path string, headers map[string]string, body []byte, withLen bool) []byte {
	var b bytes.Buffer
	fmt.Fprintf(&b, "%s %s HTTP/1.1\r\nHost: broker.test\r\nConnection: close\r\n", method, path)
	for k, v := range headers {
		fmt.Fprintf(&b, "%s: %s\r\n", k, v)
	}
	if withLen {
		fmt.Fprintf(&b, "Content-Length: %d\r\n", len(body))
	}
	b.WriteString("\r\n")
	b.Write(body)
	return b.Bytes()
}

func c14CoreStr(err error, resp []byte) string {
	switch {
	case err == nil:
		return "ok:" + vh.Hex(resp)
	case err == messages.ErrBadRequest:
		return "bad"
	case err == messages.ErrInternal:
		return "internal"
	}
	return "other"
}

func c14ClientCoreStr(err error, resp []byte) string {
	if err != nil {
		return "err"
	}
	var m messages.ClientPollResponse
	json.Unmarshal(resp, &m)
	return fmt.Sprintf("resp:%s:%s:%s", vh.Hex([]byte(m.Answer)), vh.Hex([]byte(m.Error)), vh.Hex(resp))
}

func c14Mutate(rng *rand.Rand, b []byte) []byte {
	out := append([]byte(nil), b...)
	if len(out) == 0 {
		return out
	}
	switch rng.Intn(4) {
	case 0:
		out[rng.Intn(len(out))] ^= byte(1 << uint(rng.Intn(8)))
	case 1:
		out = out[:rng.Intn(len(out))]
	case 2:
		i := rng.Intn(len(out))
		out = append(out[:i], append([]byte{byte(rng.Intn(256))}, out[i:]...)...)
	default:
		i := rng.Intn(len(out))
		out = append(out[:i], out[i+1:]...)
	}
	return out
}

func TestVerifC14(t *testing.T) {
	r := vh.Start("C14")
	defer r.Finish()
	rng := r.Rng

	// build and start the real binary
	cache := filepath.Join(os.Getenv("VERIF_DIR"), ".cache")
	if os.Getenv("VERIF_DIR") == "" {
		cache = os.TempDir()
	}
	bin := filepath.Join(cache, fmt.Sprintf("broker-%d.bin", os.Getpid()))
	// under the race detector (C20 re-runs this harness with VERIF_RACE=1) the binary itself is a -race build,
	// runs with the geoip databases loaded and receives SIGHUPs (geoip reload) while it serves; its race
	// reports go to the GORACE log_path inherited from the test process
	raceRun := os.Getenv("VERIF_RACE") == "1"
	buildArgs := []string{"build", "-modfile=" + filepath.Join(cache, "repo.go.mod"), "-o", bin}
	if raceRun {
		buildArgs = append(buildArgs, "-race")
	}
	build := exec.Command("go", append(buildArgs, ".")...)
	if out, err := build.CombinedOutput(); err != nil {
		t.Fatalf("cannot build the broker binary: %v\n%s", err, out)
	}
	defer os.Remove(bin)
	metricsFile := filepath.Join(cache, fmt.Sprintf("c14-metrics-%d.log", os.Getpid()))
	os.WriteFile(metricsFile, []byte("snowflake-stats-end 2026-01-01 00:00:00 (86400 s)\n"), 0o644)
	defer os.Remove(metricsFile)
	var logBuf bytes.Buffer
	var logMu sync.Mutex
	startBroker := func(extra ...string) (string, func()) {
		ln, err := net.Listen("tcp", "127.0.0.1:0")
		if err != nil {
			t.Fatal(err)
		}
		addr := ln.Addr().String()
		ln.Close()
		cmd := exec.Command(bin, "-disable-tls", "-disable-geoip", "-addr", addr, "-metrics-log", metricsFile)
		if raceRun {
			cmd = exec.Command(bin, "-disable-tls", "-geoipdb", "test_geoip", "-geoip6db", "test_geoip6", "-addr", addr, "-metrics-log", metricsFile)
		}
		cmd.Args = append(cmd.Args, extra...)
		cmd.Stderr = &lockedWriter{w: &logBuf, mu: &logMu}
		cmd.Stdout = io.Discard
		if err := cmd.Start(); err != nil {
			t.Fatal(err)
		}
		for i := 0; i < 200; i++ {
			if c, err := net.DialTimeout("tcp", addr, 100*time.Millisecond); err == nil {
				c.Close()
				hup := make(chan struct{})
				if raceRun {
					go func() {
						for {
							select {
							case <-hup:
								return
							case <-time.After(40 * time.Millisecond):
								cmd.Process.Signal(syscall.SIGHUP)
							}
						}
					}()
				}
				return addr, func() {
					close(hup)
					if raceRun {
						// let the race runtime flush its reports
						cmd.Process.Signal(os.Interrupt)
						done := make(chan struct{})
						go func() { cmd.Wait(); close(done) }()
						select {
						case <-done:
							return
						case <-time.After(2 * time.Second):
						}
					}
					cmd.Process.Kill()
					cmd.Wait()
				}
			}
			time.Sleep(25 * time.Millisecond)
		}
		t.Fatal("broker binary did not start listening")
		return "", nil
	}
	addr, stop := startBroker()
	defer stop()
	// the scripted matched/timeout flows get a broker process of their own, so that the generated
	// traffic (whose clients would be matched with the flows' proxies) cannot interfere with them
	flowAddr, stopFlow := startBroker()
	defer stopFlow()

	// in-process twin with the same configuration (default bridge, empty pool)
	twin := NewBrokerContext(NullLogger())
	go twin.Broker()
	tipc := &IPC{twin}

	alive := func(after string) {
		resp := c14Do(addr, c14Raw("GET", "/debug", nil, nil, false), "GET", 5*time.Second)
		if resp.dropped || resp.status != 200 {
			r.OracleFail("server-not-serving-after-request", after, resp.canon()+" "+resp.err, "the broker must keep handling later requests")
		}
	}
	checkWellFormed := func(key, line string, resp c14Resp, bound time.Duration) {
		if resp.dropped {
			r.OracleFail("connection-dropped-without-response:"+key, line, resp.err,
				"every HTTP request must receive a complete, well-formed response; the connection was closed without one")
			alive(line)
			return
		}
		if resp.elapsed > bound {
			r.OracleFail("response-too-slow:"+key, line, resp.elapsed.String(), "response not within the bound")
		}
	}

	validPoll := func() []byte {
		b, _ := messages.EncodeProxyPollRequestWithRelayPrefix(fmt.Sprintf("sid%d", rng.Int63()), "standalone", []string{"unknown", "restricted", "unrestricted", ""}[rng.Intn(4)], rng.Intn(20), "")
		return b
	}
	validClient := func() []byte {
		req := messages.ClientPollRequest{Offer: fmt.Sprintf(`{"type":"offer","sdp":"x%d"}`, rng.Intn(1000)), NAT: []string{"unknown", "restricted", "unrestricted", ""}[rng.Intn(4)]}
		switch rng.Intn(5) {
		case 0:
			req.Fingerprint = "2B280B23E1107BB62ABFC40DDCC8824814F80A72"
		case 1:
			req.Fingerprint = fmt.Sprintf("%040X", rng.Intn(99)+1) // unknown bridge
		case 2:
			req.Fingerprint = "zz"
		}
		b, _ := req.EncodeClientPollRequest()
		return b
	}
	validAnswer := func() []byte {
		b, _ := messages.EncodeAnswerRequest(fmt.Sprintf("answer%d", rng.Intn(100)), fmt.Sprintf("sid%d", rng.Intn(100)))
		return b
	}
	bigBody := func(n int, first byte) []byte {
		b := bytes.Repeat([]byte{'a'}, n)
		if n > 0 {
			b[0] = first
		}
		return b
	}
	methods := []string{"POST", "POST", "POST", "GET", "OPTIONS", "PUT", "DELETE", "HEAD", "FOO"}
	natHeaders := []string{"", "unknown", "restricted", "unrestricted", "bogus", "UNKNOWN", "restricted ", strings.Repeat("x", 300), "\xff\xfe"}

	type job struct{ run func() }
	var jobs []job

	// /proxy and /answer: bad bodies answer at once; valid polls wait for the proxy timeout (few, in parallel)
	for i := 0; i < r.N(60, 600); i++ {
		ep := []string{"/proxy", "/answer"}[rng.Intn(2)]
		method := methods[rng.Intn(len(methods))]
		var body []byte
		class := ""
		switch x := rng.Intn(10); {
		case x < 3:
			if ep == "/proxy" {
				body = c14Mutate(rng, validPoll())
			} else {
				body = validAnswer()
			}
			class = "valid-or-mutated"
		case x < 5:
			body = c14Mutate(rng, c14Mutate(rng, validAnswer()))
			class = "mutated"
		case x < 6:
			body = nil
			class = "empty"
		case x < 8:
			body = make([]byte, rng.Intn(200))
			rng.Read(body)
			class = "random"
		default:
			body = bigBody([]int{99999, 100000, 100001, 100002, 250000}[rng.Intn(5)], '{')
			class = "size"
		}
		if ep == "/proxy" {
			// a body that decodes as a poll would wait 10 s on both sides; keep those for the scripted flows
			if _, _, _, _, _, _, derr := messages.DecodeProxyPollRequestWithRelayPrefix(body); derr == nil {
				body = append([]byte("x"), body...)
			}
		}
		jobs = append(jobs, job{func() {
			hasBody := method != "GET" && method != "HEAD" && method != "OPTIONS" || len(body) > 0
			resp := c14Do(addr, c14Raw(method, ep, nil, body, hasBody), method, 8*time.Second)
			tooLarge := len(body) > readLimit
			var core string
			if !tooLarge && method != "OPTIONS" {
				var out []byte
				var cerr error
				if ep == "/proxy" {
					cerr = tipc.ProxyPolls(messages.Arg{Body: body, RemoteAddr: "127.0.0.1:1"}, &out)
				} else {
					cerr = tipc.ProxyAnswers(messages.Arg{Body: body}, &out)
				}
				core = c14CoreStr(cerr, out)
			} else {
				core = "bad"
			}
			line := fmt.Sprintf("c14 proxy %d %d %s", b2i(method == "OPTIONS"), b2i(tooLarge), core)
			desc := fmt.Sprintf("%s %s body[%d]=%s", method, ep, len(body), vh.Hex(body[:minInt(len(body), 64)]))
			r.Case(fmt.Sprintf("%s/%s/%s/%d", ep, method, class, resp.status), line+" # "+desc, true)
			checkWellFormed(ep, desc, resp, 5*time.Second)
			if method != "HEAD" {
				r.Compare("proxy-shell", line+" # "+desc, resp.canon(), r.Model(line))
			} else if !resp.dropped {
				r.Compare("proxy-shell-head", line+" # "+desc, fmt.Sprint(resp.status), strings.Fields(r.Model(line))[0])
			}
		}})
	}

	// /client: versioned, legacy × NAT header, sizes
	for i := 0; i < r.N(150, 1500); i++ {
		method := methods[rng.Intn(len(methods))]
		nat := natHeaders[rng.Intn(len(natHeaders))]
		var body []byte
		class := ""
		switch x := rng.Intn(12); {
		case x < 3:
			body = validClient()
			class = "versioned"
		case x < 5:
			body = c14Mutate(rng, validClient())
			class = "versioned-mutated"
		case x < 9:
			body = []byte(fmt.Sprintf(`{"type":"offer","sdp":"legacy%d"}`, rng.Intn(100)))
			if rng.Intn(4) == 0 {
				body = []byte("{")
			}
			if rng.Intn(6) == 0 {
				body = append(body, 0xff, 0x00)
			}
			if rng.Intn(3) == 0 {
				// unusual bytes inside the legacy offer: C0 controls, DEL, invalid UTF-8, astral and non-printable code points
				odd := []string{"\x01", "\x07", "\x0b", "\x1b", "\x7f", "\x00", "\xff", "\xc3", "\u2028", "\U000e0001", "\U0001f600", "\\", "\"", "\r\n", "\t", "\u00a0"}
				var sb strings.Builder
				sb.WriteString(`{"type":"offer","sdp":"legacy`)
				for k := 0; k < 1+rng.Intn(4); k++ {
					sb.WriteString(odd[rng.Intn(len(odd))])
				}
				sb.WriteString(`"}`)
				body = []byte(sb.String())
			}
			class = "legacy"
		case x < 10:
			body = nil
			class = "empty"
		case x < 11:
			body = make([]byte, rng.Intn(100))
			rng.Read(body)
			class = "random"
		default:
			body = bigBody([]int{99999, 100000, 100001, 150000}[rng.Intn(4)], []byte{'{', '1', 'a'}[rng.Intn(3)])
			class = "size"
		}
		jobs = append(jobs, job{func() {
			hdr := map[string]string{}
			if nat != "" {
				hdr["Snowflake-NAT-Type"] = nat
			}
			hasBody := method != "GET" && method != "HEAD" && method != "OPTIONS" || len(body) > 0
			resp := c14Do(addr, c14Raw(method, "/client", hdr, body, hasBody), method, 8*time.Second)
			tooLarge := len(body) > readLimit
			legacy := len(body) > 0 && body[0] == '{'
			argHex := "none"
			core := "err"
			if !tooLarge && method != "OPTIONS" {
				arg := body
				encOK := true
				if legacy {
					// what net/http hands the handler for this header value
					req := messages.ClientPollRequest{Offer: string(body), NAT: http.Header{"Snowflake-Nat-Type": []string{strings.TrimSpace(nat)}}.Get("Snowflake-NAT-Type")}
					a, err := req.EncodeClientPollRequest()
					if err != nil {
						encOK = false
					} else {
						arg = a
						argHex = vh.Hex(a)
					}
				}
				if encOK {
					var out []byte
					cerr := tipc.ClientOffers(messages.Arg{Body: arg}, &out)
					core = c14ClientCoreStr(cerr, out)
				}
			}
			line := fmt.Sprintf("c14 client 1 %d %d %s %s %s %s", b2i(method == "OPTIONS"), b2i(tooLarge), vh.Hex(body[:minInt(len(body), 200)]), vh.Hex([]byte(nat)), argHex, core)
			desc := fmt.Sprintf("%s /client nat=%q body[%d]", method, nat, len(body))
			r.Case(fmt.Sprintf("/client/%s/%s/%d", method, class, resp.status), line+" # "+desc, true)
			checkWellFormed("/client", desc+" "+vh.Hex(body[:minInt(len(body), 80)]), resp, 5*time.Second)
			if method != "HEAD" && !strings.ContainsAny(nat, "\xff") {
				r.Compare("client-shell", line+" # "+desc, resp.canon(), r.Model(line))
			}
			// oracle: legacy ≡ versioned under the status map
			if legacy && !tooLarge && method == "POST" && argHex != "none" && !resp.dropped {
				// the versioned equivalent, written by the harness's own encoder (not the repository's, which the legacy
				// shim itself relies on): version line + JSON object with the whole legacy body as the offer
				vj, _ := json.Marshal(map[string]string{"offer": string(body), "nat": strings.TrimSpace(nat), "fingerprint": ""})
				arg := append([]byte("1.0\n"), vj...)
				if len(arg) > readLimit {
					return // the versioned spelling of this legacy body is itself beyond the size limit: nothing to compare
				}
				v := c14Do(addr, c14Raw("POST", "/client", nil, arg, true), "POST", 8*time.Second)
				want := -1
				var wantBody []byte
				if !v.dropped && v.status == 200 {
					var m messages.ClientPollResponse
					json.Unmarshal(v.body, &m)
					switch m.Error {
					case "":
						want, wantBody = 200, []byte(m.Answer)
					case messages.StrNoProxies:
						want = 503
					case messages.StrTimedOut:
						want = 504
					default:
						want = 400
					}
				} else if !v.dropped {
					want = v.status
				}
				if want >= 0 && (resp.status != want || want == 200 && !bytes.Equal(resp.body, wantBody)) {
					r.OracleFail("legacy-not-equivalent-to-versioned", desc, fmt.Sprintf("legacy %s versioned %s", resp.canon(), v.canon()),
						"a legacy-format client request must be treated exactly like its versioned equivalent")
				}
			}
		}})
	}

	// /amp/client/
	for i := 0; i < r.N(40, 400); i++ {
		var path string
		switch rng.Intn(6) {
		case 0:
			path = "/amp/client/"
		case 1:
			path = "/amp/client/0" + strings.Repeat("x", rng.Intn(5)) + "/!!notbase64"
		case 2:
			path = "/amp/client/1abc/" + amp.EncodePath(validClient())[1:]
		default:
			path = "/amp/client/" + amp.EncodePath(c14MaybeMutate(rng, validClient()))
		}
		method := []string{"GET", "GET", "POST", "OPTIONS"}[rng.Intn(4)]
		jobs = append(jobs, job{func() {
			resp := c14Do(addr, c14Raw(method, path, nil, nil, false), method, 8*time.Second)
			desc := method + " " + path
			checkWellFormed("/amp/client/", desc, resp, 5*time.Second)
			if method == "OPTIONS" {
				r.Case("/amp/OPTIONS", desc, true)
				if !resp.dropped && resp.status != 200 {
					r.OracleFail("options-not-200", desc, resp.canon(), "CORS preflight must be answered 200")
				}
				return
			}
			dec, derr := amp.DecodePath(strings.TrimPrefix(path, "/amp/client/"))
			decHex := "none"
			core := "err"
			if derr == nil {
				decHex = vh.Hex(dec)
				var out []byte
				cerr := tipc.ClientOffers(messages.Arg{Body: dec}, &out)
				core = c14ClientCoreStr(cerr, out)
			}
			line := fmt.Sprintf("c14 amp 1 %s %s", decHex, core)
			r.Case(fmt.Sprintf("/amp/%s/%d", method, resp.status), line+" # "+desc, true)
			if !resp.dropped {
				r.Compare("amp-shell", line+" # "+desc, fmt.Sprint(resp.status), r.Model(line))
			}
		}})
	}

	// plain endpoints and net/http-level oddities (oracle only for the latter)
	for i := 0; i < r.N(40, 300); i++ {
		ep := []string{"/debug", "/metrics", "/robots.txt", "/prometheus", "/nonexistent", "/client/extra", "/proxy/", "/"}[rng.Intn(8)]
		method := methods[rng.Intn(len(methods))]
		jobs = append(jobs, job{func() {
			resp := c14Do(addr, c14Raw(method, ep, nil, nil, false), method, 8*time.Second)
			desc := method + " " + ep
			r.Case(fmt.Sprintf("%s/%s/%d", ep, method, resp.status), desc, true)
			checkWellFormed(ep, desc, resp, 5*time.Second)
			if resp.dropped || method == "HEAD" {
				return
			}
			switch {
			case ep == "/debug" && method != "OPTIONS":
				var s string
				tipc.Debug(new(interface{}), &s)
				line := "c14 debug 1 " + vh.Hex([]byte(s))
				r.Compare("debug-shell", line, resp.canon(), r.Model(line))
			case ep == "/robots.txt":
				r.Compare("robots", "c14 robots", resp.canon(), r.Model("c14 robots"))
			case ep == "/metrics" && method != "OPTIONS":
				if resp.status != 200 {
					r.OracleFail("metrics-not-served", desc, resp.canon(), "with a metrics log configured /metrics serves it")
				}
			}
		}})
	}
	rawOddities := [][]byte{
		[]byte("POST /client HTTP/1.1\r\nHost: x\r\nContent-Length: 5\r\nConnection: close\r\n\r\nab"), // short body then close
		[]byte("POST /client HTTP/1.1\r\nHost: x\r\nTransfer-Encoding: chunked\r\nConnection: close\r\n\r\n3\r\n1.0\r\n0\r\n\r\n"),
		[]byte("POST /proxy HTTP/1.0\r\n\r\n"),
		[]byte("GET /client HTTP/1.1\r\nHost: x\r\nConnection: close\r\nSnowflake-NAT-Type: a\r\nSnowflake-NAT-Type: b\r\n\r\n"),
		[]byte("POST /client HTTP/1.1\r\nHost: x\r\nContent-Length: 2\r\nConnection: close\r\nSnowflake-NAT-Type: bogus\r\n\r\n{}"),
		// an announced length far beyond anything that will be sent (the sender then half-closes): answered, not dropped
		[]byte("POST /client HTTP/1.1\r\nHost: x\r\nContent-Length: 4611686018427387904\r\nConnection: close\r\n\r\n1.0\n{}"),
		[]byte("POST /proxy HTTP/1.1\r\nHost: x\r\nContent-Length: 4611686018427387904\r\nConnection: close\r\n\r\n{}"),
		[]byte("POST /answer HTTP/1.1\r\nHost: x\r\nContent-Length: 9223372036854775807\r\nConnection: close\r\n\r\n{}"),
		[]byte("POST /client HTTP/1.1\r\nHost: x\r\nContent-Length: 1099511627776\r\nConnection: close\r\n\r\n1.0\n{}"),
	}
	for i, raw := range rawOddities {
		i, raw := i, raw
		jobs = append(jobs, job{func() {
			conn, err := net.DialTimeout("tcp", addr, 5*time.Second)
			if err != nil {
				return
			}
			defer conn.Close()
			conn.SetDeadline(time.Now().Add(8 * time.Second))
			conn.Write(raw)
			if tc, ok := conn.(*net.TCPConn); ok && (i == 0 || i >= 5) {
				tc.CloseWrite()
			}
			resp, err := http.ReadResponse(bufio.NewReader(conn), &http.Request{Method: "POST"})
			desc := fmt.Sprintf("raw #%d %q", i, string(raw[:minInt(len(raw), 60)]))
			r.Case(fmt.Sprintf("raw/%d", i), desc, true)
			if err != nil && i != 0 {
				r.OracleFail(fmt.Sprintf("connection-dropped-without-response:raw-%d", i), desc, err.Error(), "every complete HTTP request must receive a response")
				alive(desc)
			} else if err == nil {
				io.ReadAll(resp.Body)
			}
		}})
	}

	// run the immediate jobs with bounded parallelism
	var wg sync.WaitGroup
	sem := make(chan struct{}, 16)
	rng.Shuffle(len(jobs), func(i, j int) { jobs[i], jobs[j] = jobs[j], jobs[i] })
	for _, j := range jobs {
		wg.Add(1)
		sem <- struct{}{}
		go func(j job) { defer wg.Done(); defer func() { <-sem }(); j.run() }(j)
	}

	// scripted flows on the binary that need the protocol waits (in parallel with the above):
	// (a) poll + legacy client + answer -> legacy 200 with the answer; (b) poll + legacy client, no answer -> 504;
	// (c) idle poll -> 200 "no match" after the proxy timeout.
	type flow struct{ name, got, want string }
	flows := make([]flow, 4)
	var fw sync.WaitGroup
	post := func(path string, hdr map[string]string, body []byte, d time.Duration) c14Resp {
		return c14Do(flowAddr, c14Raw("POST", path, hdr, body, true), "POST", d)
	}
	long := time.Duration(ProxyTimeout+ClientTimeout)*time.Second + 10*time.Second
	fw.Add(4)
	go func() {
		// (d) two overlapping polls that name the same session id: each is a request of its own and
		// must get its own response within the proxy timeout
		defer fw.Done()
		time.Sleep(1200 * time.Millisecond)
		poll, _ := messages.EncodeProxyPollRequestWithRelayPrefix("flow-d", "standalone", "restricted", 1, "")
		c1 := make(chan c14Resp, 1)
		go func() { c1 <- post("/proxy", nil, poll, long) }()
		time.Sleep(3 * time.Second)
		p2 := post("/proxy", nil, poll, time.Duration(ProxyTimeout)*time.Second+6*time.Second)
		p1 := <-c1
		idle, _ := messages.EncodePollResponse("", false, "")
		want := "200 " + vh.Hex(idle)
		flows[3] = flow{"two-overlapping-polls-same-sid", p1.canon() + " | " + p2.canon(), want + " | " + want}
	}()
	go func() {
		defer fw.Done()
		poll, _ := messages.EncodeProxyPollRequestWithRelayPrefix("flow-a", "standalone", "unrestricted", 0, "")
		pc := make(chan c14Resp, 1)
		go func() { pc <- post("/proxy", nil, poll, long) }()
		time.Sleep(300 * time.Millisecond)
		cc := make(chan c14Resp, 1)
		go func() {
			cc <- post("/client", map[string]string{"Snowflake-NAT-Type": "restricted"}, []byte(`{"type":"offer","sdp":"flow-a"}`), long)
		}()
		p := <-pc
		ans, _ := messages.EncodeAnswerRequest("ANSWER-A", "flow-a")
		a := post("/answer", nil, ans, 8*time.Second)
		c := <-cc
		flows[0] = flow{"legacy-matched-answered", fmt.Sprintf("poll=%d answer=%d client=%s", p.status, a.status, c.canon()), "poll=200 answer=200 client=200 " + vh.Hex([]byte("ANSWER-A"))}
	}()
	go func() {
		defer fw.Done()
		time.Sleep(50 * time.Millisecond)
		poll, _ := messages.EncodeProxyPollRequestWithRelayPrefix("flow-b", "standalone", "restricted", 0, "")
		pc := make(chan c14Resp, 1)
		go func() { pc <- post("/proxy", nil, poll, long) }()
		time.Sleep(300 * time.Millisecond)
		c := post("/client", map[string]string{"Snowflake-NAT-Type": "unrestricted"}, []byte(`{"type":"offer","sdp":"flow-b"}`), long)
		p := <-pc
		flows[1] = flow{"legacy-matched-timeout", fmt.Sprintf("poll=%d client=%s", p.status, c.canon()), "poll=200 client=504 -"}
	}()
	fw.Add(1)
	go func() {
		// (c') while the polls of flows c and d are waiting, a client names a well-formed fingerprint that is in no
		// bridge list: it is refused on its own; the waiting polls are not touched (they still get their answers below)
		defer fw.Done()
		time.Sleep(1300 * time.Millisecond)
		for _, natv := range []string{"unrestricted", "restricted"} {
			vj, _ := json.Marshal(map[string]string{"offer": "flow-unknown-bridge", "nat": natv, "fingerprint": "00000000000000000000000000000000000000A1"})
			c := post("/client", nil, append([]byte("1.0\n"), vj...), long)
			r.Case("flow/unknown-bridge-client-while-polls-wait", fmt.Sprintf("nat=%s -> %s", natv, c.canon()), true)
			if c.dropped {
				r.OracleFail("connection-dropped-without-response:unknown-bridge", "client naming an unknown bridge, nat="+natv, c.err, "every HTTP request must receive a response")
			}
		}
	}()
	go func() {
		defer fw.Done()
		time.Sleep(900 * time.Millisecond) // after flows a and b have matched their own polls
		poll, _ := messages.EncodeProxyPollRequestWithRelayPrefix("flow-c", "standalone", "unknown", 3, "")
		p := post("/proxy", nil, poll, long)
		idle, _ := messages.EncodePollResponse("", false, "")
		flows[2] = flow{"idle-poll", p.canon(), "200 " + vh.Hex(idle)}
	}()
	// (e) a herd at the timeout boundary, on a broker process of its own: many polls started together idle
	// into the proxy timeout while as many clients arrive within a few milliseconds of the timers; whatever the
	// interleaving, every one of these requests gets a well-formed response within the protocol waits, and the
	// broker keeps serving afterwards
	herd := func(herdAddr string) {
		defer fw.Done()
		n := r.N(192, 512)
		type hres struct {
			kind string
			i    int
			resp c14Resp
		}
		out := make(chan hres, 2*n)
		t0 := time.Now()
		boundary := t0.Add(time.Duration(ProxyTimeout) * time.Second)
		fire := make(chan struct{}) // closed when the first poll comes back: the timers have started to fire
		var fireOnce sync.Once
		for i := 0; i < n; i++ {
			go func(i int) {
				poll, _ := messages.EncodeProxyPollRequestWithRelayPrefix(fmt.Sprintf("herd-%d", i), "standalone", "unrestricted", i%3, "")
				resp := c14Do(herdAddr, c14Raw("POST", "/proxy", nil, poll, true), "POST", long)
				if offer, _, _, err := messages.DecodePollResponseWithRelayURL(resp.body); err == nil && offer == "" {
					fireOnce.Do(func() { close(fire) }) // an idle answer: this poll's timer has fired
				}
				out <- hres{"poll", i, resp}
			}(i)
		}
		for i := 0; i < n; i++ {
			// the polls register within a few milliseconds of each other, so their timers fire within a few
			// milliseconds after the nominal boundary: the clients arrive densely around it
			go func(i int) {
				time.Sleep(time.Until(boundary.Add(time.Duration(i%13-6) * 500 * time.Microsecond)))
				vj, _ := json.Marshal(map[string]string{"offer": fmt.Sprintf("herd-offer-%d", i), "nat": "unknown", "fingerprint": ""})
				out <- hres{"client", i, c14Do(herdAddr, c14Raw("POST", "/client", nil, append([]byte("1.0\n"), vj...), true), "POST", long)}
			}(i)
		}
		bad, classes := 0, map[string]int{}
		var pollLat []time.Duration
		for k := 0; k < 2*n; k++ {
			h := <-out
			if h.kind == "poll" && !h.resp.dropped {
				pollLat = append(pollLat, h.resp.elapsed)
			}
			cls := fmt.Sprintf("%s/%d", h.kind, h.resp.status)
			if h.resp.dropped {
				cls = h.kind + "/no-response"
			}
			classes[cls]++
			if h.resp.dropped || h.resp.status != 200 {
				bad++
				if bad <= 1 {
					r.OracleFail("request-unanswered-at-timeout-boundary", fmt.Sprintf("herd of %d polls idling into the proxy timeout and %d clients arriving within +-3 ms of it: %s %d", n, n, h.kind, h.i),
						h.resp.canon()+" "+h.resp.err, "every HTTP request must receive a complete, well-formed response within the protocol waits, whatever the timing of polls, offers and timeouts")
				}
			}
		}
		for cls, k := range classes {
			for j := 0; j < k; j++ {
				r.Case("herd/"+cls, fmt.Sprintf("%s #%d", cls, j), true)
			}
		}
		if len(pollLat) > 0 {
			sort.Slice(pollLat, func(a, b int) bool { return pollLat[a] < pollLat[b] })
			r.Note("timeout-boundary herd: poll response times min %v median %v max %v (n=%d)", pollLat[0], pollLat[len(pollLat)/2], pollLat[len(pollLat)-1], len(pollLat))
		}
		resp := c14Do(herdAddr, c14Raw("GET", "/debug", nil, nil, false), "GET", 5*time.Second)
		if resp.dropped || resp.status != 200 {
			r.OracleFail("server-not-serving-after-request", "after the timeout-boundary herd", resp.canon()+" "+resp.err, "the broker must keep handling later requests")
		}
	}
	// (f) the same boundary forced deterministically on an in-process broker behind the real HTTP handlers: the
	// harness holds the broker's matching lock across the poll's timeout instant with the client request queued on
	// the lock first, so the client claims the proxy after the timer has fired and before the timeout branch runs
	fw.Add(1)
	go func() {
		defer fw.Done()
		fctx := NewBrokerContext(NullLogger())
		// a broker that has been up for more than a day: geoip loaded, the daily metrics roll-over has happened
		if err := fctx.metrics.LoadGeoipDatabases("test_geoip", "test_geoip6"); err != nil {
			r.Note("in-process broker: geoip databases not loaded: %v", err)
		}
		fctx.metrics.zeroMetrics() // takes the metrics lock itself
		go fctx.Broker()
		fi := &IPC{fctx}
		mux := http.NewServeMux()
		mux.Handle("/proxy", SnowflakeHandler{fi, proxyPolls})
		mux.Handle("/client", SnowflakeHandler{fi, clientOffers})
		mux.Handle("/debug", SnowflakeHandler{fi, debugHandler})
		srv := httptest.NewServer(mux)
		faddr := strings.TrimPrefix(srv.URL, "http://")
		t0 := time.Now()
		boundary := t0.Add(time.Duration(ProxyTimeout) * time.Second)
		pollC, clientC := make(chan c14Resp, 1), make(chan c14Resp, 1)
		go func() {
			poll, _ := messages.EncodeProxyPollRequestWithRelayPrefix("forced-1", "standalone", "unrestricted", 0, "")
			pollC <- c14Do(faddr, c14Raw("POST", "/proxy", nil, poll, true), "POST", long)
		}()
		// beside it: polls of every NAT type and a client that is refused, after the roll-over (their statistics are
		// the first of the new period); each must get its response
		var side sync.WaitGroup
		for _, natv := range []string{"unknown", "restricted", ""} {
			side.Add(1)
			go func(natv string) {
				defer side.Done()
				poll, _ := messages.EncodeProxyPollRequestWithRelayPrefix("after-rollover-"+natv, "webext", natv, 0, "")
				p := c14Do(faddr, c14Raw("POST", "/proxy", nil, poll, true), "POST", long)
				r.Case("flow/poll-after-metrics-roll-over", fmt.Sprintf("nat=%q -> %s", natv, p.canon()), true)
				if p.dropped || p.status != 200 {
					r.OracleFail("connection-dropped-without-response:after-roll-over", "in-process broker after the daily metrics roll-over (geoip loaded): idle poll with NAT type "+natv, p.canon()+" "+p.err,
						"every HTTP request must receive a response, also the first ones of a new metrics period")
				}
			}(natv)
		}
		defer side.Wait()
		time.Sleep(time.Until(boundary.Add(-700 * time.Millisecond)))
		fctx.snowflakeLock.Lock()
		go func() {
			vj, _ := json.Marshal(map[string]string{"offer": "forced-offer", "nat": "unknown", "fingerprint": ""})
			clientC <- c14Do(faddr, c14Raw("POST", "/client", nil, append([]byte("1.0\n"), vj...), true), "POST", long)
		}()
		time.Sleep(time.Until(boundary.Add(400 * time.Millisecond)))
		fctx.snowflakeLock.Unlock()
		desc := "forced: poll idles into its timeout; the client request is queued on the matching lock 500 ms before the timer fires, the lock is released 400 ms after it"
		got := ""
		stuck := false
		for _, x := range []struct {
			name string
			ch   chan c14Resp
		}{{"poll", pollC}, {"client", clientC}} {
			select {
			case resp := <-x.ch:
				got += fmt.Sprintf("%s=%d ", x.name, resp.status)
				if resp.dropped {
					stuck = true
				}
			case <-time.After(long):
				got += x.name + "=no-response "
				stuck = true
			}
		}
		r.Case("flow/forced-client-claims-proxy-at-poll-timeout", desc+" -> "+got, true)
		if stuck {
			r.OracleFail("request-unanswered-at-timeout-boundary", desc, got,
				"every HTTP request must receive a complete, well-formed response within the protocol waits, whatever the timing of polls, offers and timeouts")
			return // the handlers are stuck: do not wait for them in srv.Close
		}
		resp := c14Do(faddr, c14Raw("GET", "/debug", nil, nil, false), "GET", 5*time.Second)
		if resp.dropped || resp.status != 200 {
			r.OracleFail("server-not-serving-after-request", desc, resp.canon()+" "+resp.err, "the broker must keep handling later requests")
			return
		}
		srv.Close()
	}()
	for hk := 0; hk < r.N(1, 3); hk++ {
		herdAddr, stopHerd := startBroker()
		defer stopHerd()
		fw.Add(1)
		go herd(herdAddr)
	}
	wg.Wait()
	fw.Wait()
	for _, f := range flows {
		r.Case("flow/"+f.name, f.name+" -> "+f.got, true)
		if f.got != f.want {
			r.OracleFail("scripted-flow:"+f.name, f.name, f.got, "expected "+f.want)
		}
	}
	// model for the legacy arms of the flows (core result known by construction)
	for _, c := range []struct{ core, want string }{
		{"resp:" + vh.Hex([]byte("ANSWER-A")) + ":-:-", "200 " + vh.Hex([]byte("ANSWER-A"))},
		{"resp:-:" + vh.Hex([]byte(messages.StrTimedOut)) + ":-", "504 -"},
		{"resp:-:" + vh.Hex([]byte(messages.StrNoProxies)) + ":-", "503 -"},
	} {
		line := "c14 client 1 0 0 7b7d - 7b7d " + c.core
		r.Compare("legacy-arms", line, c.want, r.Model(line))
	}
	// (g) unusual but legal configurations of the broker binary: the distinct-IP journal switched on with an interval
	// of zero / one nanosecond (a chunk per address), an empty masking key, a relay pattern; a poll, a refused client
	// and a /debug request must each get their response
	for ci, extra := range [][]string{
		{"-ip-count-log", filepath.Join(filepath.Dir(metricsFile), fmt.Sprintf("c14-ipcount-%d-a.log", os.Getpid())), "-ip-count-mask", "k", "-ip-count-interval", "0s"},
		{"-ip-count-log", filepath.Join(filepath.Dir(metricsFile), fmt.Sprintf("c14-ipcount-%d-b.log", os.Getpid())), "-ip-count-interval", "1ns", "-allowed-relay-pattern", "snowflake.torproject.net$", "-default-relay-pattern", "snowflake.torproject.net$"},
	} {
		caddr, stopC := startBroker(extra...)
		cfgLine := fmt.Sprintf("broker %s", strings.Join(extra[2:], " "))
		var cw sync.WaitGroup
		for k := 0; k < 3; k++ {
			cw.Add(1)
			go func(k int) {
				defer cw.Done()
				pat := "" // accepts every relay: acceptable to a broker without a configured pattern
				if ci == 1 {
					pat = "snowflake.torproject.net$"
				}
				poll, _ := messages.EncodeProxyPollRequestWithRelayPrefix(fmt.Sprintf("cfg-%d-%d", ci, k), "standalone", "unknown", 0, pat)
				p := c14Do(caddr, c14Raw("POST", "/proxy", nil, poll, true), "POST", long)
				r.Case("config/idle-poll", cfgLine+" -> "+p.canon(), true)
				if p.dropped || p.status != 200 {
					r.OracleFail("connection-dropped-without-response:config", cfgLine+": idle poll", p.canon()+" "+p.err, "every HTTP request must receive a response under every legal configuration")
				}
			}(k)
		}
		time.Sleep(300 * time.Millisecond)
		vj, _ := json.Marshal(map[string]string{"offer": "cfg", "nat": "unrestricted"})
		c := c14Do(caddr, c14Raw("POST", "/client", nil, append([]byte("1.0\n"), vj...), true), "POST", long)
		d := c14Do(caddr, c14Raw("GET", "/debug", nil, nil, false), "GET", 5*time.Second)
		r.Case("config/client-and-debug", fmt.Sprintf("%s -> client %s debug %d", cfgLine, c.canon(), d.status), true)
		if c.dropped || d.dropped || d.status != 200 {
			r.OracleFail("connection-dropped-without-response:config", cfgLine+": client / debug", c.canon()+" "+c.err+" | "+d.canon()+" "+d.err, "every HTTP request must receive a response under every legal configuration")
		}
		cw.Wait()
		stopC()
		os.Remove(extra[1])
	}
	// (f) no poisoning by numbers: thousands of requests that are each refused on their own - clients naming an
	// unknown bridge, undecodable client and proxy polls, answers for unknown sessions - and then a complete
	// rendezvous on the same broker: it must go through as if those requests had never been made
	{
		flood := r.N(5600, 16000)
		vj, _ := json.Marshal(map[string]string{"offer": "flood", "nat": "restricted", "fingerprint": "00000000000000000000000000000000000000A1"})
		ansUnknown, _ := messages.EncodeAnswerRequest("ANSWER-X", "no-such-session")
		bodies := []struct {
			path string
			body []byte
		}{
			{"/client", append([]byte("1.0\n"), vj...)},
			{"/client", []byte("1.0\n{not json")},
			{"/proxy", []byte(`{"Sid":"","Version":"1.3"}`)},
			{"/answer", ansUnknown},
		}
		hc := &http.Client{Transport: &http.Transport{MaxIdleConnsPerHost: 32}, Timeout: 20 * time.Second}
		var fwg sync.WaitGroup
		var sent, failed int64
		fsem := make(chan struct{}, 32)
		for i := 0; i < flood; i++ {
			fwg.Add(1)
			fsem <- struct{}{}
			go func(i int) {
				defer fwg.Done()
				defer func() { <-fsem }()
				b := bodies[i%len(bodies)]
				if i%len(bodies) != 0 && i%8 != i%len(bodies) {
					b = bodies[0] // most of the flood are unknown-bridge clients
				}
				resp, err := hc.Post("http://"+flowAddr+b.path, "application/octet-stream", bytes.NewReader(b.body))
				if err != nil {
					atomic.AddInt64(&failed, 1)
					return
				}
				io.Copy(io.Discard, resp.Body)
				resp.Body.Close()
				atomic.AddInt64(&sent, 1)
			}(i)
		}
		fwg.Wait()
		hc.CloseIdleConnections()
		poll, _ := messages.EncodeProxyPollRequestWithRelayPrefix("flow-f", "standalone", "unrestricted", 0, "")
		pc := make(chan c14Resp, 1)
		go func() { pc <- post("/proxy", nil, poll, long) }()
		time.Sleep(300 * time.Millisecond)
		cj, _ := json.Marshal(map[string]string{"offer": "flow-f", "nat": "restricted"})
		cc := make(chan c14Resp, 1)
		go func() { cc <- post("/client", nil, append([]byte("1.0\n"), cj...), long) }()
		pr := <-pc
		ans, _ := messages.EncodeAnswerRequest("ANSWER-F", "flow-f")
		a := post("/answer", nil, ans, 8*time.Second)
		c := <-cc
		want, _ := (&messages.ClientPollResponse{Answer: "ANSWER-F"}).EncodePollResponse()
		got := fmt.Sprintf("poll=%d answer=%d client=%s", pr.status, a.status, c.canon())
		line := fmt.Sprintf("%d refused requests (unknown-bridge clients, undecodable polls, answers for unknown sessions; %d got a response, %d transport errors), then poll + client + answer", flood, atomic.LoadInt64(&sent), atomic.LoadInt64(&failed))
		r.Case("flow/rendezvous-after-a-flood-of-refused-requests", line+" -> "+got, true)
		if exp := "poll=200 answer=200 client=200 " + vh.Hex(want); got != exp {
			r.OracleFail("scripted-flow:rendezvous-after-refused-requests", line, got, "expected "+exp+": refused requests leave nothing behind, however many there were")
		}
		if f := atomic.LoadInt64(&failed); f > 0 {
			r.Note("flood: %d requests ended in a transport error", f)
		}
	}
	alive("end of run")
	logMu.Lock()
	if n := strings.Count(logBuf.String(), "panic serving"); n > 0 {
		r.OracleFail("handler-panicked", "broker stderr", fmt.Sprintf("%d 'panic serving' lines", n), "no request may make a handler panic")
	}
	logMu.Unlock()
}

type lockedWriter struct {
	w  io.Writer
	mu *sync.Mutex
}

func (l *lockedWriter) Write(p []byte) (int, error) {
	l.mu.Lock()
	defer l.mu.Unlock()
	return l.w.Write(p)
}

func minInt(a, b int) int {
	if a < b {
		return a
	}
	return b
}

func b2i(b bool) int {
	if b {
		return 1
	}
	return 0
}

func c14MaybeMutate(rng *rand.Rand, b []byte) []byte {
	if rng.Intn(3) == 0 {
		return c14Mutate(rng, b)
	}
	return b
}
