//go:build verif

package encapsulation

// C09 correspondence + oracle harness (virtual file in common/encapsulation via -overlay).

import (
	"bytes"
	"fmt"
	"io"
	"math/rand"
	"os"
	"os/exec"
	"runtime"
	"runtime/debug"
	"strings"
	"sync"
	"testing"
	"time"

	vh "git.torproject.org/pluggable-transports/snowflake.git/v2/common/zzverif"
)

// scriptReader is the Go twin of the model's abstract reader `Rd`.
type scriptReader struct {
	data   []byte
	script [][2]int // (k, eofWithData)
}

func (s *scriptReader) Read(p []byte) (int, error) {
	if len(p) == 0 {
		return 0, nil
	}
	if len(s.script) == 0 {
		if len(s.data) == 0 {
			return 0, io.EOF
		}
		n := copy(p, s.data)
		s.data = s.data[n:]
		return n, nil
	}
	k, e := s.script[0][0], s.script[0][1]
	s.script = s.script[1:]
	if k == 0 {
		return 0, nil
	}
	if len(s.data) == 0 {
		return 0, io.EOF
	}
	if k > len(p) {
		k = len(p)
	}
	n := copy(p[:k], s.data)
	s.data = s.data[n:]
	if e == 1 && len(s.data) == 0 {
		return n, io.EOF
	}
	return n, nil
}

func scriptStr(sc [][2]int) string {
	if len(sc) == 0 {
		return "."
	}
	var parts []string
	for _, e := range sc {
		parts = append(parts, fmt.Sprintf("%d:%d", e[0], e[1]))
	}
	return strings.Join(parts, ",")
}

func statusOf(err error) string {
	switch err {
	case io.EOF:
		return "eof"
	case io.ErrUnexpectedEOF:
		return "unexpectedEOF"
	case ErrTooLong:
		return "tooLong"
	}
	return "other:" + err.Error()
}

// readAllReal calls the real ReadData until it fails; returns the canonical line.
func readAllReal(r io.Reader) (line string, chunks [][]byte, status string) {
	defer func() {
		if x := recover(); x != nil {
			status = fmt.Sprintf("panic:%v", x)
			line = chunkStr(chunks) + " " + status
		}
	}()
	for {
		p, err := ReadData(r)
		if err != nil {
			status = statusOf(err)
			break
		}
		chunks = append(chunks, p)
	}
	return chunkStr(chunks) + " " + status, chunks, status
}

func chunkStr(cs [][]byte) string {
	if len(cs) == 0 {
		return "."
	}
	var parts []string
	for _, c := range cs {
		parts = append(parts, vh.Hex(c))
	}
	return strings.Join(parts, ",")
}

var boundaryLens = []int{0, 1, 2, 62, 63, 64, 65, 127, 128, 129, 1000, 8190, 8191, 8192, 8193}

type item struct {
	isData bool
	data   []byte
	pad    int
}

func genItems(rng *rand.Rand, maxLen int) []item {
	n := rng.Intn(6)
	var items []item
	for i := 0; i < n; i++ {
		var l int
		switch rng.Intn(4) {
		case 0:
			l = boundaryLens[rng.Intn(len(boundaryLens))]
		case 1:
			l = rng.Intn(70)
		default:
			l = rng.Intn(300)
		}
		if l > maxLen {
			l = maxLen
		}
		if rng.Intn(3) == 0 {
			items = append(items, item{pad: l + rng.Intn(3)*1024*rng.Intn(2)})
		} else {
			d := make([]byte, l)
			rng.Read(d)
			items = append(items, item{isData: true, data: d})
		}
	}
	return items
}

func encodeItems(items []item) ([]byte, [][]byte) {
	var buf bytes.Buffer
	var want [][]byte
	for _, it := range items {
		if it.isData {
			if _, err := WriteData(&buf, it.data); err != nil {
				panic(err)
			}
			want = append(want, it.data)
		} else {
			n, err := WritePadding(&buf, it.pad)
			if err != nil || n != it.pad {
				panic(fmt.Sprintf("WritePadding(%d) = %d, %v", it.pad, n, err))
			}
		}
	}
	return buf.Bytes(), want
}

func genScript(rng *rand.Rand, dataLen int) [][2]int {
	var sc [][2]int
	n := rng.Intn(12)
	if rng.Intn(4) == 0 {
		n = dataLen + rng.Intn(4) // fully scripted: one entry per byte or so
	}
	for i := 0; i < n; i++ {
		k := 0
		switch rng.Intn(5) {
		case 0:
			k = 0
		case 1, 2:
			k = 1
		case 3:
			k = 1 + rng.Intn(4)
		default:
			k = 1 + rng.Intn(2000)
		}
		sc = append(sc, [2]int{k, rng.Intn(2)})
	}
	return sc
}

func equalChunks(a, b [][]byte) bool {
	if len(a) != len(b) {
		return false
	}
	for i := range a {
		if !bytes.Equal(a[i], b[i]) {
			return false
		}
	}
	return true
}

// TestC09ChildManyPaddings: a peer that streams padding (zero bytes) for a long time before its next data chunk.
// Decoding must take bounded memory whatever the number of consecutive paddings; the child lowers the goroutine
// stack limit so that a decoder whose stack grows with that number dies quickly instead of after gigabytes.
func TestC09ChildManyPaddings(t *testing.T) {
	if os.Getenv("VERIF_C09_CHILD") == "" {
		t.Skip("child of TestVerifC09 only")
	}
	debug.SetMaxStack(32 << 20)
	n := 3 << 20
	stream := make([]byte, n, n+8)
	var tail bytes.Buffer
	WriteData(&tail, []byte("after"))
	stream = append(stream, tail.Bytes()...)
	got, err := ReadData(bytes.NewReader(stream))
	fmt.Printf("C09CHILD %q %v\n", got, err)
}

func c09ManyPaddings(r *vh.Run) {
	cmd := exec.Command(os.Args[0], "-test.run", "^TestC09ChildManyPaddings$", "-test.count=1")
	cmd.Env = append(os.Environ(), "VERIF_C09_CHILD=1", "VERIF_OUT=")
	outb, _ := cmd.CombinedOutput()
	got := "process-died"
	for _, l := range strings.Split(string(outb), "\n") {
		if strings.HasPrefix(l, "C09CHILD ") {
			got = strings.TrimPrefix(l, "C09CHILD ")
		}
	}
	line := "3 MiB of one-byte paddings, then the chunk \"after\" (child process with a 32 MiB stack limit)"
	r.Case("paddings/millions-in-a-row", line, true)
	if got != `"after" <nil>` {
		tail := string(outb)
		if len(tail) > 600 {
			tail = tail[:600]
		}
		r.OracleFail("padding-run-not-decoded-in-bounded-memory", line, got+" | "+tail,
			"padding is invisible and decoding allocates no more than the announced chunk, however many paddings come in a row")
	}
}

func TestVerifC09(t *testing.T) {
	r := vh.Start("C09")
	defer r.Finish()
	rng := r.Rng

	// 1. prefix encoder on boundaries and random lengths (real dataPrefixForLength vs model)
	lens := []int{0, 1, 62, 63, 64, 65, 8190, 8191, 8192, 8193, 1<<20 - 2, 1<<20 - 1, 1 << 20, 1<<20 + 1, 1 << 21, 1 << 30}
	for i := 0; i < r.N(300, 5000); i++ {
		lens = append(lens, rng.Intn(1<<uint(1+rng.Intn(22))))
	}
	for _, n := range lens {
		p, err := dataPrefixForLength(n)
		real := vh.Hex(p)
		if err != nil {
			real = statusOf(err)
		}
		line := fmt.Sprintf("c09 prefix %d", n)
		r.Case("prefix/"+fmt.Sprint(len(p)), line, true)
		r.Compare("prefix", line, real, r.Model(line))
		// oracle on the real code alone: a chunk of n bytes written by WriteData reads back as n bytes
		if n < 1<<20 {
			d := make([]byte, n)
			if n > 0 {
				d[0], d[n-1], d[n/2] = 0xa5, 0x5a, byte(n)
			}
			var buf bytes.Buffer
			buf.Grow(n + 4)
			if _, err := WriteData(&buf, d); err != nil {
				r.OracleFail("writedata-rejects-valid-length", line, err.Error(), "WriteData must accept every chunk shorter than 2^20")
				continue
			}
			enc := buf.Len()
			got, err := ReadData(&buf)
			if err != nil || !bytes.Equal(got, d) || buf.Len() != 0 {
				r.OracleFail("roundtrip-length", line, fmt.Sprintf("encoded %d bytes, read back %d bytes, err %v, %d left", enc, len(got), err, buf.Len()),
					"a chunk written by WriteData must be read back exactly by ReadData")
			}
		} else if err == nil {
			r.OracleFail("prefix-accepts-too-long", line, real, "lengths of 2^20 and above cannot be encoded in three prefix bytes")
		}
	}

	// 2. padding: exact size, invisible, equals the model's bytes
	pads := []int{0, 1, 2, 63, 64, 65, 66, 127, 128, 1023, 1024, 1025, 1026, 1087, 1088, 1089, 2047, 2048, 2049, 3000, 70000}
	for i := 0; i < r.N(100, 1500); i++ {
		pads = append(pads, rng.Intn(5000))
	}
	for _, n := range pads {
		var buf bytes.Buffer
		w, err := WritePadding(&buf, n)
		line := fmt.Sprintf("c09 pad %d", n)
		r.Case(fmt.Sprintf("pad/blocks%d", (n+1023)/1024), line, n > 0)
		if err != nil || w != n || buf.Len() != n {
			r.OracleFail("padding-size", line, fmt.Sprintf("wrote %d err %v len %d", w, err, buf.Len()), "WritePadding(n) must occupy exactly n bytes")
		}
		if n <= 5000 {
			r.Compare("padding-bytes", line, vh.Hex(buf.Bytes()), r.Model(line))
		}
		_, chunks, st := readAllReal(bytes.NewReader(buf.Bytes()))
		if len(chunks) != 0 || st != "eof" {
			r.OracleFail("padding-invisible", line, fmt.Sprint(len(chunks), st), "padding must decode to no data and a clean EOF")
		}
	}

	// 3. MaxDataForSize
	sizes := []int{1, 2, 63, 64, 65, 66, 8191, 8192, 8193, 8194, 8195, 1<<20 - 1, 1 << 20, 1<<20 + 1, 1<<20 + 2, 1<<20 + 3, 1<<20 + 4, 1 << 22}
	for i := 0; i < r.N(200, 3000); i++ {
		sizes = append(sizes, 1+rng.Intn(1<<uint(1+rng.Intn(22))))
	}
	for _, n := range sizes {
		m := MaxDataForSize(n)
		line := fmt.Sprintf("c09 max %d", n)
		r.Case("max", line, true)
		r.Compare("maxdata", line, fmt.Sprint(m), r.Model(line))
		var buf bytes.Buffer
		if m < 0 || m > 1<<21 {
			r.OracleFail("maxdata-budget", line, fmt.Sprint(m), "MaxDataForSize out of range")
			continue
		}
		buf.Grow(m + 4)
		w, err := WriteData(&buf, make([]byte, m))
		if err != nil || w != buf.Len() || buf.Len() > n {
			r.OracleFail("maxdata-budget", line, fmt.Sprintf("MaxDataForSize=%d, WriteData wrote %d bytes, err %v", m, buf.Len(), err),
				"a chunk of MaxDataForSize(n) bytes must be encodable within n bytes")
		} else if got, err := ReadData(&buf); err != nil || len(got) != m {
			r.OracleFail("maxdata-roundtrip", line, fmt.Sprintf("read back %d bytes, err %v", len(got), err), "the budget-sized chunk must read back")
		}
	}

	// 4. streams through bytes.Reader and through scripted readers
	type stream struct {
		class string
		bs    []byte
		want  [][]byte // expected chunks when the stream is a valid encoding (nil = unknown)
		valid bool
	}
	var streams []stream
	// fixed awkward streams (non-minimal encodings, too-long prefixes, the F5 witnesses)
	fixed := [][]byte{{}, {0x80}, {0xc0, 0x00}, {0xc0, 0x80, 0x00}, {0xc0, 0x80, 0x80}, {0xc0, 0x80, 0x80, 0x00}, {0x40, 0x00}, {0x40, 0x80, 0x03, 1, 2, 3, 0x81, 9},
		{0x81}, {0xc0}, {0xc0, 0x80}, {0x83, 1, 2}, {0xff, 0xff, 0x7f}, {0x00, 0x00, 0x80}, {0xc0, 0x01, 0x41, 0xc0, 0x01, 0x42}}
	for _, f := range fixed {
		streams = append(streams, stream{class: "fixed", bs: f})
	}
	for i := 0; i < r.N(400, 8000); i++ {
		items := genItems(rng, 9000)
		bs, want := encodeItems(items)
		if want == nil {
			want = [][]byte{}
		}
		streams = append(streams, stream{class: "valid", bs: bs, want: want, valid: true})
		if len(bs) > 0 && len(bs) < 400 {
			cut := rng.Intn(len(bs))
			streams = append(streams, stream{class: "truncated", bs: bs[:cut]})
		}
		if rng.Intn(4) == 0 && len(bs) > 0 && len(bs) < 2000 {
			mut := append([]byte(nil), bs...)
			mut[rng.Intn(len(mut))] ^= byte(1 << uint(rng.Intn(8)))
			streams = append(streams, stream{class: "mutated", bs: mut})
		}
	}
	for i := 0; i < r.N(200, 4000); i++ {
		b := make([]byte, rng.Intn(40))
		rng.Read(b)
		streams = append(streams, stream{class: "random", bs: b})
	}
	// every truncation point of a few short valid streams
	for i := 0; i < r.N(5, 60); i++ {
		bs, _ := encodeItems(genItems(rng, 40))
		if len(bs) > 120 {
			bs = bs[:120]
		}
		for cut := 0; cut <= len(bs); cut++ {
			streams = append(streams, stream{class: "alltrunc", bs: bs[:cut]})
		}
	}
	if r.Thorough() {
		for _, l := range []int{1<<20 - 1, 1 << 19, 70000} {
			d := make([]byte, l)
			rng.Read(d)
			bs, want := encodeItems([]item{{isData: true, data: d}, {pad: 5000}, {isData: true, data: []byte{1}}})
			streams = append(streams, stream{class: "huge", bs: bs, want: want, valid: true})
		}
	}

	for _, s := range streams {
		hexs := vh.Hex(s.bs)
		plain, chunks, st := readAllReal(bytes.NewReader(s.bs))
		line := "c09 decode " + hexs
		r.Case("decode/"+s.class+"/"+st, line, len(s.bs) > 0)
		if s.class != "huge" {
			r.Compare("decode", line, plain, r.Model(line))
		}
		if s.valid && (st != "eof" || !equalChunks(chunks, s.want)) {
			r.OracleFail("roundtrip", line, plain, "decoding an encoded item sequence must return exactly its data chunks and a clean EOF")
		}
		if strings.HasPrefix(st, "panic") || strings.HasPrefix(st, "other") {
			r.OracleFail("totality", line, plain, "ReadData must return a chunk, EOF, ErrUnexpectedEOF or ErrTooLong")
		}
		// scripted fragmentations of the same bytes: the oracle is independence from the script
		nscripts := 3
		if s.class == "fixed" {
			nscripts = 40
		}
		if s.class == "huge" {
			nscripts = 1
		}
		for j := 0; j < nscripts; j++ {
			sc := genScript(rng, len(s.bs))
			if s.class == "fixed" && j < 8 {
				// systematic small scripts: zero-length read / data+EOF at each of the first positions
				sc = nil
				for q := 0; q < j/2; q++ {
					sc = append(sc, [2]int{1, 0})
				}
				if j%2 == 0 {
					sc = append(sc, [2]int{0, 0})
				} else {
					sc = append(sc, [2]int{1, 1})
				}
			}
			got, _, st2 := readAllReal(&scriptReader{data: append([]byte(nil), s.bs...), script: append([][2]int(nil), sc...)})
			sline := fmt.Sprintf("c09 read 1 %s %s", hexs, scriptStr(sc))
			r.Case("read/"+s.class+"/"+st2, sline, len(sc) > 0)
			if got != plain {
				key := "fragmentation"
				r.OracleFail(key, sline, got, "reading through a contract-respecting fragmenting reader must give the same chunks and status as reading the whole bytes: "+plain)
			}
			if s.class != "huge" {
				r.Compare("read", sline, got, r.Model(sline))
			}
		}
	}

	// 5. io.Pipe fed once per message, as the client does (including zero-length messages)
	for i := 0; i < r.N(60, 600); i++ {
		items := genItems(rng, 300)
		bs, want := encodeItems(items)
		if want == nil {
			want = [][]byte{}
		}
		pr, pw := io.Pipe()
		var cuts []int
		go func(bs []byte) {
			rest := bs
			for len(rest) > 0 {
				n := 1 + rng.Intn(len(rest))
				if rng.Intn(4) == 0 {
					pw.Write(nil) // a zero-length message
				}
				pw.Write(rest[:n])
				rest = rest[n:]
			}
			pw.Close()
		}(bs)
		done := make(chan struct{})
		var got string
		var chunks [][]byte
		var st string
		go func() { got, chunks, st = readAllReal(pr); close(done) }()
		select {
		case <-done:
		case <-time.After(10 * time.Second):
			r.OracleFail("pipe-hang", "pipe "+vh.Hex(bs), "blocked", "ReadData must not hang on a pipe that is closed")
			continue
		}
		_ = cuts
		line := "pipe " + vh.Hex(bs)
		r.Case("pipe/"+st, line, len(bs) > 0)
		if st != "eof" || !equalChunks(chunks, want) {
			r.OracleFail("fragmentation-pipe", line, got, "messages written one by one into an io.Pipe (zero-length ones included) must read back as the written chunks")
		}
	}
	// 5b. a length prefix whose third byte still announces a continuation is over three bytes: it is rejected
	// as too long at that point — also when the stream ends there, and without waiting for a fourth byte on
	// a stream that stays open
	for _, pre := range [][]byte{{0xc0, 0x80, 0x80}, {0xff, 0xff, 0xff}, {0x40 | 1, 0x80 | 2, 0x80 | 3}, {0xc0, 0x80, 0xff}} {
		line := "c09 decode " + vh.Hex(pre)
		_, _, st := readAllReal(bytes.NewReader(pre))
		r.Case("toolong/truncated-after-third-byte", line, true)
		if st != "tooLong" {
			r.OracleFail("prefix-over-three-bytes-not-too-long", line, st, "a prefix of more than three bytes must be rejected as too long")
		}
		pr, pw := io.Pipe()
		go pw.Write(pre) // the stream stays open
		done := make(chan string, 1)
		go func() { _, _, st := readAllReal(pr); done <- st }()
		select {
		case st = <-done:
		case <-time.After(3 * time.Second):
			st = "blocked"
		}
		pw.Close()
		r.Case("toolong/open-stream", line+" (stream stays open)", true)
		if st != "tooLong" {
			r.OracleFail("prefix-over-three-bytes-not-too-long", line+" (stream stays open)", st,
				"a prefix of more than three bytes must be rejected as too long without waiting for further bytes")
		}
	}

	c09ManyPaddings(r)
	{
		irng := rand.New(rand.NewSource(r.Seed + 77))
		var cs []string
		for i := 0; i < r.N(300, 3000); i++ {
			bs, _ := encodeItems(genItems(irng, 300))
			if irng.Intn(3) == 0 && len(bs) > 0 {
				bs = bs[:irng.Intn(len(bs)+1)] // truncated
			}
			if irng.Intn(5) == 0 {
				bs = append([]byte{}, bs...)
				for k := 0; k < 1+irng.Intn(3) && len(bs) > 0; k++ {
					bs[irng.Intn(len(bs))] = byte(irng.Intn(256))
				}
			}
			cs = append(cs, string(bs))
		}
		r.Independent("readdata", "ReadData over a stream of its own", cs, func(c string) string {
			line, _, st := readAllReal(bytes.NewReader([]byte(c)))
			return line + " " + st
		})
	}

	// 6. independent streams written at the same time (each client session pads and frames its own carrier):
	// what is read back from a stream is exactly what was written to it, whatever the other writers do.  The
	// underlying writers stall at random on entry to Write so that calls of different goroutines interleave.
	for round := 0; round < r.N(30, 400); round++ {
		const G = 4
		type streamRes struct {
			items []item
			buf   bytes.Buffer
			want  [][]byte
			err   string
		}
		res := make([]*streamRes, G)
		var wg sync.WaitGroup
		start := make(chan struct{})
		for g := 0; g < G; g++ {
			sr := &streamRes{}
			for len(sr.items) < 3 {
				sr.items = append(sr.items, genItems(rng, 300)...)
			}
			if g%2 == 0 { // make sure padding and data alternate on some streams
				sr.items = append([]item{{pad: 10 + g}, {isData: true, data: []byte{1, 2, 3, byte(g)}}, {pad: 1000 - g}}, sr.items...)
			}
			res[g] = sr
			stall := rng.Int63()
			wg.Add(1)
			go func(sr *streamRes, stall int64) {
				defer wg.Done()
				defer func() {
					if x := recover(); x != nil {
						sr.err = fmt.Sprintf("panic: %v", x)
					}
				}()
				w := &stallWriter{w: &sr.buf, rng: rand.New(rand.NewSource(stall))}
				<-start
				for _, it := range sr.items {
					if it.isData {
						if _, err := WriteData(w, it.data); err != nil {
							sr.err = err.Error()
							return
						}
						sr.want = append(sr.want, it.data)
					} else if n, err := WritePadding(w, it.pad); err != nil || n != it.pad {
						sr.err = fmt.Sprintf("WritePadding(%d) = %d, %v", it.pad, n, err)
						return
					}
				}
			}(sr, stall)
		}
		close(start)
		wg.Wait()
		for g, sr := range res {
			var desc []string
			for _, it := range sr.items {
				if it.isData {
					desc = append(desc, "d"+fmt.Sprint(len(it.data)))
				} else {
					desc = append(desc, "p"+fmt.Sprint(it.pad))
				}
			}
			line := fmt.Sprintf("concurrent stream %d of %d: %s", g, G, strings.Join(desc, ","))
			r.Case("concurrent-streams", line, true)
			if sr.err != "" {
				r.OracleFail("concurrent-stream-write-failed", line, sr.err, "writing to independent streams concurrently must not fail")
				continue
			}
			got, chunks, st := readAllReal(bytes.NewReader(sr.buf.Bytes()))
			if st != "eof" || !equalChunks(chunks, sr.want) {
				r.OracleFail("concurrent-streams-interfere", line, got+" / stream bytes "+vh.Hex(sr.buf.Bytes()),
					"chunks and paddings written to one stream must read back as exactly its data chunks, whatever is written to other streams at the same time")
			}
		}
	}
}

// stallWriter delays at random on entry to Write, so that writers of different goroutines interleave.
type stallWriter struct {
	w   io.Writer
	rng *rand.Rand
}

func (s *stallWriter) Write(p []byte) (int, error) {
	switch s.rng.Intn(3) {
	case 0:
		runtime.Gosched()
	case 1:
		time.Sleep(time.Duration(s.rng.Intn(300)) * time.Microsecond)
	}
	return s.w.Write(p)
}
