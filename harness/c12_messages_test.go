//go:build verif

package messages

// C12 correspondence + oracle harness (virtual file in common/messages).
//
//	correspondence  the real Encode*/Decode* functions against the Lean model (`c12 …`), on generated
//	                messages and on well-formed / malformed documents handed to every decoder
//	oracle          evaluated on the real code alone:
//	                roundtrip-<msg>      decode(encode(m)) = m with the documented defaults, for valid m
//	                rejects-<what>       a message the protocol forbids is answered with an error
//	                accepts-invalid-<d>  a decoder returned values that violate its own contract
//	                decoder-panic        no decoder (or encoder) panics on any input

import (
	"encoding/hex"
	"encoding/json"
	"fmt"
	"math"
	"math/rand"
	"strings"
	"testing"
	"unicode/utf8"

	vh "git.torproject.org/pluggable-transports/snowflake.git/v2/common/zzverif"
)

func c12h(s string) string { return vh.Hex([]byte(s)) }

func c12ToValid(s string) string {
	var b strings.Builder
	for i := 0; i < len(s); {
		r, sz := utf8.DecodeRuneInString(s[i:])
		b.WriteRune(r)
		i += sz
	}
	return b.String()
}

func c12trunc(s string) string {
	q := fmt.Sprintf("%q", s)
	if len(q) > 240 {
		return q[:240] + "…"
	}
	return q
}

// guard runs f; a panic becomes the outcome "panic".
func c12guard(f func() string) (out string) {
	defer func() {
		if r := recover(); r != nil {
			out = "panic"
		}
	}()
	return f()
}

// ---- the eight decoders, canonical outcomes --------------------------------------------------

type c12dec struct {
	op  string // model op
	run func(data []byte) string
}

var c12decoders = []c12dec{
	{"dec-poll", func(d []byte) string {
		sid, ty, nat, cl, pat, aware, err := DecodeProxyPollRequestWithRelayPrefix(d)
		if err != nil {
			return "err"
		}
		return fmt.Sprintf("ok %s %s %s %d %s %v", c12h(sid), c12h(ty), c12h(nat), cl, c12h(pat), aware)
	}},
	{"dec-poll0", func(d []byte) string {
		sid, ty, nat, cl, err := DecodeProxyPollRequest(d)
		if err != nil {
			return "err"
		}
		return fmt.Sprintf("ok %s %s %s %d", c12h(sid), c12h(ty), c12h(nat), cl)
	}},
	{"dec-pollresp", func(d []byte) string {
		offer, nat, url, err := DecodePollResponseWithRelayURL(d)
		if err == nil {
			return fmt.Sprintf("ok %s %s %s", c12h(offer), c12h(nat), c12h(url))
		}
		if nat != "" { // the "failure reason" return: values and an error made of the status text
			return fmt.Sprintf("fail %s %s %s", c12h(err.Error()), c12h(nat), c12h(url))
		}
		return "err"
	}},
	{"dec-pollresp0", func(d []byte) string {
		offer, nat, err := DecodePollResponse(d)
		if err == nil {
			return fmt.Sprintf("ok %s %s", c12h(offer), c12h(nat))
		}
		if nat != "" {
			return fmt.Sprintf("fail %s %s", c12h(err.Error()), c12h(nat))
		}
		return "err"
	}},
	{"dec-ansreq", func(d []byte) string {
		answer, sid, err := DecodeAnswerRequest(d)
		if err != nil {
			return "err"
		}
		return fmt.Sprintf("ok %s %s", c12h(answer), c12h(sid))
	}},
	{"dec-ansresp", func(d []byte) string {
		ok, err := DecodeAnswerResponse(d)
		if err != nil {
			return "err"
		}
		return fmt.Sprintf("ok %v", ok)
	}},
	{"dec-clientreq", func(d []byte) string {
		m, err := DecodeClientPollRequest(d)
		if err != nil {
			return "err"
		}
		return fmt.Sprintf("ok %s %s %s", c12h(m.Offer), c12h(m.NAT), c12h(m.Fingerprint))
	}},
	{"dec-clientresp", func(d []byte) string {
		m, err := DecodeClientPollResponse(d)
		if err != nil {
			return "err"
		}
		return fmt.Sprintf("ok %s %s", c12h(m.Answer), c12h(m.Error))
	}},
}

var c12natNames = []string{"unknown", "restricted", "unrestricted"}

func c12inList(s string, l []string) bool {
	for _, x := range l {
		if x == s {
			return true
		}
	}
	return false
}

func c12isFingerprint(s string) bool {
	b, err := hex.DecodeString(s)
	return err == nil && (len(b) == 20 || len(b) == 32)
}

// c12contract checks what a decoder returned against the decoder's own contract (outputs only).
func c12contract(op, out string) string {
	if !strings.HasPrefix(out, "ok ") {
		return ""
	}
	f := strings.Fields(out)[1:]
	un := func(h string) string {
		if h == "-" {
			return ""
		}
		b, _ := hex.DecodeString(h)
		return string(b)
	}
	switch op {
	case "dec-poll", "dec-poll0":
		if un(f[0]) == "" {
			return "empty session id accepted"
		}
		if !KnownProxyTypes[un(f[1])] && un(f[1]) != ProxyUnknown {
			return "proxy type neither known nor \"unknown\""
		}
		if !c12inList(un(f[2]), c12natNames) {
			return "NAT type outside the three names"
		}
		if op == "dec-poll" && f[5] == "false" && f[4] != "-" {
			return "relay pattern without awareness"
		}
	case "dec-pollresp", "dec-pollresp0":
		if un(f[1]) == "" {
			return "empty NAT type returned"
		}
	case "dec-ansreq":
		if un(f[0]) == "" || un(f[1]) == "" {
			return "empty answer or session id accepted"
		}
	case "dec-clientreq":
		if un(f[0]) == "" {
			return "empty offer accepted"
		}
		if !c12inList(un(f[1]), c12natNames) {
			return "NAT type outside the three names"
		}
		if !c12isFingerprint(un(f[2])) {
			return "fingerprint is not 20 or 32 hex-encoded bytes"
		}
	case "dec-clientresp":
		if un(f[0]) == "" && un(f[1]) == "" {
			return "response with neither answer nor error accepted"
		}
	}
	return ""
}

// ---- field value generators ------------------------------------------------------------------

func c12str(g *vh.JGen) string {
	inv := 0
	if g.Rng.Intn(6) == 0 {
		inv = 5
	}
	return g.GoString(g.Len(), inv)
}

func c12nonEmpty(g *vh.JGen) string {
	s := c12str(g)
	if s == "" {
		s = string(g.Rune())
	}
	return s
}

func c12nat(g *vh.JGen) string {
	switch g.Rng.Intn(10) {
	case 0:
		return ""
	case 1:
		return []string{"Unknown", "bogus", "restricted ", "unrestricted\x00", "\xff", "unkſnown"}[g.Rng.Intn(6)]
	}
	return c12natNames[g.Rng.Intn(3)]
}

func c12ptype(g *vh.JGen) string {
	switch g.Rng.Intn(8) {
	case 0:
		return c12str(g)
	case 1:
		return []string{"", "unknown", "Standalone", "web ext", "badge\n"}[g.Rng.Intn(5)]
	}
	return []string{"standalone", "webext", "badge", "iptproxy"}[g.Rng.Intn(4)]
}

func c12int(g *vh.JGen) int {
	switch g.Rng.Intn(8) {
	case 0:
		return []int{0, 1, -1, 8, 16, math.MaxInt64, math.MinInt64, math.MaxInt32, math.MinInt32, math.MaxInt64 - 1, math.MinInt64 + 1, 1 << 53}[g.Rng.Intn(12)]
	case 1:
		return int(g.Rng.Uint64())
	}
	return g.Rng.Intn(200) * 8
}

func c12fp(g *vh.JGen) string {
	hexs := func(n int, set string) string {
		b := make([]byte, n)
		for i := range b {
			b[i] = set[g.Rng.Intn(len(set))]
		}
		return string(b)
	}
	switch g.Rng.Intn(12) {
	case 0:
		return ""
	case 1:
		return hexs(64, "0123456789abcdefABCDEF")
	case 2:
		return hexs([]int{0, 1, 2, 38, 39, 41, 42, 63, 65, 66, 80}[g.Rng.Intn(11)], "0123456789ABCDEF")
	case 3:
		// one non-hex byte in an otherwise valid fingerprint (both lengths): any ASCII byte, with a bias towards
		// bytes one bit away from a hex digit (what a hand-rolled, case-folding decoder gets wrong)
		n := []int{40, 64}[g.Rng.Intn(2)]
		s := []byte(hexs(n, "0123456789ABCDEFabcdef"))
		for tries := 0; tries < 100; tries++ {
			var c byte
			switch g.Rng.Intn(3) {
			case 0:
				c = "gG xZ-\x00\xff"[g.Rng.Intn(8)]
			case 1:
				c = byte(g.Rng.Intn(128))
			default:
				d := "0123456789abcdefABCDEF"[g.Rng.Intn(22)]
				c = d ^ byte(1<<uint(g.Rng.Intn(7)))
			}
			if !strings.ContainsRune("0123456789abcdefABCDEF", rune(c)) {
				s[g.Rng.Intn(n)] = c
				break
			}
		}
		return string(s)
	case 4:
		return hexs(38, "0123456789ABCDEF") + "é"
	}
	return hexs(40, "0123456789abcdefABCDEF")
}

func c12normNat(n string) string {
	if n == "" {
		return "unknown"
	}
	return n
}

func c12natOK(n string) bool { return n == "" || c12inList(n, c12natNames) }

// ---- structured documents for the decoders ---------------------------------------------------

type c12field struct {
	name string
	kind string // str | int | ptr
	vals func(g *vh.JGen) string
}

var c12versions = []string{"1.3", "1.0", "1", "1.", "1.3.7", "1.x", "2.0", "", ".1", "0.1", "11.0", "１.3", " 1.0", "1 .0", "1․" + "3"}

func c12pick(l []string) func(g *vh.JGen) string {
	return func(g *vh.JGen) string { return l[g.Rng.Intn(len(l))] }
}

var c12structs = map[string][]c12field{
	"poll": {{"Sid", "str", c12nonEmpty}, {"Version", "str", c12pick(c12versions)}, {"Type", "str", c12ptype}, {"NAT", "str", c12nat},
		{"Clients", "int", nil}, {"AcceptedRelayPattern", "ptr", c12str}},
	"pollresp": {{"Status", "str", c12pick([]string{"client match", "no match", "", "Client match", "timed out", "client match ", "x"})},
		{"Offer", "str", c12str}, {"NAT", "str", c12nat}, {"RelayURL", "str", c12pick([]string{"", "", "wss://snowflake.torproject.net/", "x"})}},
	"ansreq":     {{"Version", "str", c12pick(c12versions)}, {"Sid", "str", c12nonEmpty}, {"Answer", "str", c12nonEmpty}},
	"ansresp":    {{"Status", "str", c12pick([]string{"success", "client gone", "", "Success", "x"})}},
	"clientreq":  {{"offer", "str", c12nonEmpty}, {"nat", "str", c12nat}, {"fingerprint", "str", c12fp}},
	"clientresp": {{"answer", "str", c12str}, {"error", "str", c12str}},
}

var c12structOps = map[string][]int{"poll": {0, 1}, "pollresp": {2, 3}, "ansreq": {4}, "ansresp": {5}, "clientreq": {6}, "clientresp": {7}}
var c12structNames = []string{"poll", "pollresp", "ansreq", "ansresp", "clientreq", "clientresp"}

var c12intLits = []string{"0", "8", "-8", "-0", "16", "9223372036854775807", "9223372036854775808", "-9223372036854775808", "-9223372036854775809",
	"1.0", "8e0", "1e2", "0.0", "-1", "123456789012345678901234567890", "1e999", "08", "0x8"}

// c12doc writes a JSON object for the struct: every member present / absent / null / of a wrong JSON
// type / duplicated / re-spelled, unknown members, random whitespace and member order.
func c12doc(g *vh.JGen, st string) (string, string) {
	r := g.Rng
	var parts []string
	label := ""
	add := func(k, v string) { parts = append(parts, g.Ws()+g.StrLit(k)+g.Ws()+":"+g.Ws()+v+g.Ws()) }
	proper := func(f c12field) string {
		if f.kind == "int" {
			if r.Intn(3) == 0 {
				return c12intLits[r.Intn(len(c12intLits))]
			}
			return fmt.Sprint(c12int(g))
		}
		if r.Intn(12) == 0 {
			return g.WeirdStrLit()
		}
		return g.StrLit(f.vals(g))
	}
	wrong := func(f c12field) string {
		ks := []string{"true", "false", "arr", "obj", "emptyarr", "emptyobj", "num", "bignum"}
		if f.kind == "int" {
			ks = []string{"true", "str", "arr", "obj", "emptyobj", "weirdstr"}
		}
		return g.ValueOf(ks[r.Intn(len(ks))], 1)
	}
	for _, f := range c12structs[st] {
		switch m := r.Intn(16); {
		case m == 0:
			label += "absent,"
		case m == 1:
			add(f.name, "null")
			label += "null,"
		case m == 2:
			add(f.name, wrong(f))
			label += "wrongtype,"
		case m == 3: // duplicates: the last one that is not null wins; a wrong type anywhere is an error
			add(f.name, proper(f))
			add(f.name, []string{proper(f), "null", wrong(f), proper(f)}[r.Intn(4)])
			label += "dup,"
		case m == 4 || m == 5:
			k, matches := g.FoldVariant(f.name)
			add(k, proper(f))
			if matches {
				label += "folded,"
			} else {
				label += "nearmiss,"
			}
		case m == 6: // exact and folded spelling together
			k, _ := g.FoldVariant(f.name)
			add(k, proper(f))
			add(f.name, proper(f))
			label += "dupfold,"
		default:
			add(f.name, proper(f))
		}
	}
	if r.Intn(5) == 0 {
		add(g.GoString(r.Intn(6), 0), g.Value(1))
		label += "extra,"
	}
	if r.Intn(3) == 0 {
		r.Shuffle(len(parts), func(i, j int) { parts[i], parts[j] = parts[j], parts[i] })
	}
	if label == "" {
		label = "plain"
	}
	// keep the distribution readable: the first deviation, "+" when there are more
	ls := strings.Split(strings.TrimSuffix(label, ","), ",")
	if len(ls) > 1 {
		ls = []string{ls[0] + "+"}
	}
	doc := g.Ws() + "{" + strings.Join(parts, ",") + "}" + g.Ws()
	if st == "clientreq" {
		doc = []string{"1.0\n", "1.0\n", "1.0\n", "1.0\n", "1.0\n\n", "1.0\r\n", "1.1\n", "1.0", "", "\n", " 1.0\n", "1.0\n1.0\n", "\ufeff1.0\n", "2.0\n"}[r.Intn(14)] + doc
	}
	return doc, strings.Join(ls, ",")
}

func TestVerifC12(t *testing.T) {
	r := vh.Start("C12")
	defer r.Finish()
	defer func() { // a crash of the harness itself must not pass for a clean run
		if p := recover(); p != nil {
			r.Compare("harness-crash", "TestVerifC12", fmt.Sprint(p), "")
			t.Errorf("harness crashed: %v", p)
		}
	}()
	g := &vh.JGen{Rng: r.Rng}
	rng := r.Rng

	// decode runs decoder i on data: correspondence, never-panics, contract of the outputs.
	decode := func(i int, class string, data []byte) string {
		d := c12decoders[i]
		real := c12guard(func() string { return d.run(data) })
		line := "c12 " + d.op + " " + vh.Hex(data)
		oc := real
		if k := strings.IndexByte(real, ' '); k > 0 {
			oc = real[:k]
		}
		r.Case(d.op+"/"+class+"/"+oc, line, oc != "err" || json.Valid(data))
		if real == "panic" {
			r.OracleFail("decoder-panic", line, real, d.op+" panicked on "+c12trunc(string(data)))
		}
		if why := c12contract(d.op, real); why != "" {
			r.OracleFail("accepts-invalid-"+d.op, line, real, why)
		}
		if oc != "err" && !json.Valid(data) && d.op != "dec-clientreq" {
			r.OracleFail("rejects-non-json", line, real, "input that is not JSON must be answered with an error")
		}
		r.Compare(d.op, line, real, r.Model(line))
		return real
	}
	encode := func(line string, f func() ([]byte, error)) []byte {
		var out []byte
		real := c12guard(func() string {
			b, err := f()
			if err != nil {
				return "err"
			}
			out = b
			return vh.Hex(b)
		})
		if real == "panic" || real == "err" {
			r.OracleFail("encoder-fails", line, real, "encoders must succeed on every field value")
		}
		r.Compare("encode", line, real, r.Model(line))
		return out
	}
	expect := func(key, line, got, want, what string) {
		if got != want {
			r.OracleFail(key, line, got, what+": want "+c12trunc(want))
		}
	}
	var corpus [][]byte // encodings and documents, to be mutated later
	keep := func(b []byte) {
		if len(corpus) < 600 && len(b) < 4000 {
			corpus = append(corpus, append([]byte(nil), b...))
		}
	}

	// 1. the six messages: encode, decode, round trip with defaults / reject laws
	for i, n := 0, r.N(700, 14000); i < n; i++ {
		// --- proxy poll request
		{
			sid, ty, nat, cl, pat := c12str(g), c12ptype(g), c12nat(g), c12int(g), ""
			if rng.Intn(8) != 0 && sid == "" {
				sid = c12nonEmpty(g)
			}
			if rng.Intn(2) == 0 {
				pat = c12str(g)
			}
			line := fmt.Sprintf("c12 enc-poll %s %s %s %d %s", c12h(sid), c12h(ty), c12h(nat), cl, c12h(pat))
			r.Case("enc-poll", line, true)
			var b []byte
			if pat == "" && rng.Intn(2) == 0 {
				b = encode(line, func() ([]byte, error) { return EncodeProxyPollRequest(sid, ty, nat, cl) })
			} else {
				b = encode(line, func() ([]byte, error) { return EncodeProxyPollRequestWithRelayPrefix(sid, ty, nat, cl, pat) })
			}
			keep(b)
			got := decode(0, "encoded", b)
			got0 := decode(1, "encoded", b)
			nty := c12ToValid(ty)
			if !KnownProxyTypes[nty] {
				nty = "unknown"
			}
			switch {
			case sid == "":
				expect("rejects-missing-sid", line, got, "err", "a poll without session id must be rejected")
			case !c12natOK(nat):
				expect("rejects-nat", line, got, "err", "a NAT type outside the three names must be rejected")
			default:
				want := fmt.Sprintf("ok %s %s %s %d %s true", c12h(c12ToValid(sid)), c12h(nty), c12h(c12normNat(nat)), cl, c12h(c12ToValid(pat)))
				expect("roundtrip-poll", line, got, want, "decoding an encoded poll request")
				if pat == "" {
					expect("roundtrip-poll-legacy", line, got0, fmt.Sprintf("ok %s %s %s %d", c12h(c12ToValid(sid)), c12h(nty), c12h(c12normNat(nat)), cl), "decoding an encoded poll request (legacy decoder)")
				} else {
					expect("rejects-extra-info", line, got0, "err", "the legacy decoder must reject a relay pattern")
				}
			}
		}
		// --- proxy poll response
		{
			offer, nat, url, reason := c12str(g), c12nat(g), "", "no match"
			success := rng.Intn(3) != 0
			if rng.Intn(2) == 0 {
				url = []string{"wss://snowflake.torproject.net/", c12str(g)}[rng.Intn(2)]
			}
			if rng.Intn(3) == 0 {
				reason = []string{"", "client match", "no match", StrTimedOut, StrNoProxies, c12str(g)}[rng.Intn(6)]
			}
			line := fmt.Sprintf("c12 enc-pollresp %s %d %s %s %s", c12h(offer), map[bool]int{false: 0, true: 1}[success], c12h(nat), c12h(url), c12h(reason))
			r.Case("enc-pollresp", line, true)
			var b []byte
			if url == "" && reason == "no match" && rng.Intn(2) == 0 {
				b = encode(line, func() ([]byte, error) { return EncodePollResponse(offer, success, nat) })
			} else {
				b = encode(line, func() ([]byte, error) { return EncodePollResponseWithRelayURL(offer, success, nat, url, reason) })
			}
			keep(b)
			got := decode(2, "encoded", b)
			got0 := decode(3, "encoded", b)
			vnat := c12normNat(c12ToValid(nat))
			switch {
			case success && offer == "":
				expect("rejects-missing-offer", line, got, "err", "a client match without offer must be rejected")
			case success:
				expect("roundtrip-pollresp-match", line, got, fmt.Sprintf("ok %s %s %s", c12h(c12ToValid(offer)), c12h(vnat), c12h(c12ToValid(url))), "decoding an encoded client match")
				if url == "" {
					expect("roundtrip-pollresp-legacy", line, got0, fmt.Sprintf("ok %s %s", c12h(c12ToValid(offer)), c12h(vnat)), "decoding an encoded client match (legacy decoder)")
				} else {
					expect("rejects-extra-info", line, got0, "err", "the legacy decoder must reject a relay URL")
				}
			case reason == "" || reason == "client match":
				expect("rejects-empty-status", line, got, "err", "a failure response with empty status (or a match without offer) must be rejected")
			case reason == "no match":
				expect("roundtrip-pollresp-nomatch", line, got, "ok - "+c12h("unknown")+" -", "decoding an encoded no-match response")
				expect("roundtrip-pollresp-legacy", line, got0, "ok - "+c12h("unknown"), "decoding an encoded no-match response (legacy decoder)")
			default:
				expect("roundtrip-pollresp-failure", line, got, fmt.Sprintf("fail %s %s -", c12h(c12ToValid(reason)), c12h("unknown")), "decoding an encoded failure response must report the reason")
			}
		}
		// --- proxy answer request / response
		{
			answer, sid := c12str(g), c12str(g)
			if rng.Intn(4) != 0 {
				answer, sid = c12nonEmpty(g), c12nonEmpty(g)
			}
			line := fmt.Sprintf("c12 enc-ansreq %s %s", c12h(answer), c12h(sid))
			r.Case("enc-ansreq", line, true)
			b := encode(line, func() ([]byte, error) { return EncodeAnswerRequest(answer, sid) })
			keep(b)
			got := decode(4, "encoded", b)
			if answer == "" || sid == "" {
				expect("rejects-missing-sid-or-answer", line, got, "err", "an answer request without sid or answer must be rejected")
			} else {
				expect("roundtrip-ansreq", line, got, fmt.Sprintf("ok %s %s", c12h(c12ToValid(answer)), c12h(c12ToValid(sid))), "decoding an encoded answer request")
			}
			succ := rng.Intn(2) == 0
			l2 := fmt.Sprintf("c12 enc-ansresp %d", map[bool]int{false: 0, true: 1}[succ])
			r.Case("enc-ansresp", l2, true)
			b2 := encode(l2, func() ([]byte, error) { return EncodeAnswerResponse(succ) })
			keep(b2)
			expect("roundtrip-ansresp", l2, decode(5, "encoded", b2), fmt.Sprintf("ok %v", succ), "decoding an encoded answer response")
		}
		// --- client poll request
		{
			offer, nat, fp := c12str(g), c12nat(g), c12fp(g)
			if rng.Intn(6) != 0 && offer == "" {
				offer = c12nonEmpty(g)
			}
			line := fmt.Sprintf("c12 enc-clientreq %s %s %s", c12h(offer), c12h(nat), c12h(fp))
			r.Case("enc-clientreq", line, true)
			b := encode(line, func() ([]byte, error) {
				return (&ClientPollRequest{Offer: offer, NAT: nat, Fingerprint: fp}).EncodeClientPollRequest()
			})
			keep(b)
			got := decode(6, "encoded", b)
			wfp := fp
			if wfp == "" {
				wfp = defaultBridgeFingerprint
			}
			switch {
			case offer == "":
				expect("rejects-missing-offer", line, got, "err", "a client request without offer must be rejected")
			case !c12isFingerprint(wfp):
				expect("rejects-fingerprint", line, got, "err", "a fingerprint that is not 20 or 32 hex-encoded bytes must be rejected")
			case !c12natOK(nat):
				expect("rejects-nat", line, got, "err", "a NAT type outside the three names must be rejected")
			default:
				expect("roundtrip-clientreq", line, got, fmt.Sprintf("ok %s %s %s", c12h(c12ToValid(offer)), c12h(c12normNat(nat)), c12h(wfp)), "decoding an encoded client request")
			}
		}
		// --- client poll response
		{
			answer, errs := c12str(g), ""
			switch rng.Intn(4) {
			case 0:
				answer, errs = "", []string{StrTimedOut, StrNoProxies, c12str(g)}[rng.Intn(3)]
			case 1:
				errs = c12str(g)
			}
			line := fmt.Sprintf("c12 enc-clientresp %s %s", c12h(answer), c12h(errs))
			r.Case("enc-clientresp", line, true)
			b := encode(line, func() ([]byte, error) { return (&ClientPollResponse{Answer: answer, Error: errs}).EncodePollResponse() })
			keep(b)
			got := decode(7, "encoded", b)
			if answer == "" && errs == "" {
				expect("rejects-empty-response", line, got, "err", "a response with neither answer nor error must be rejected")
			} else {
				expect("roundtrip-clientresp", line, got, fmt.Sprintf("ok %s %s", c12h(c12ToValid(answer)), c12h(c12ToValid(errs))), "decoding an encoded client response")
			}
		}
	}

	// 2. one semantic defect planted in a valid message (through Go's own generic JSON): must be rejected
	type defect struct {
		key  string
		dec  int
		base func() []byte
		edit func(m map[string]interface{})
	}
	validPoll := func() []byte {
		b, _ := EncodeProxyPollRequestWithRelayPrefix(c12nonEmpty(g), c12ptype(g), c12natNames[rng.Intn(3)], c12int(g), c12str(g))
		return b
	}
	validAns := func() []byte { b, _ := EncodeAnswerRequest(c12nonEmpty(g), c12nonEmpty(g)); return b }
	validClient := func() []byte {
		b, _ := (&ClientPollRequest{Offer: c12nonEmpty(g), NAT: c12natNames[rng.Intn(3)]}).EncodeClientPollRequest()
		return b[len(ClientVersion)+1:]
	}
	validMatch := func() []byte {
		b, _ := EncodePollResponseWithRelayURL(c12nonEmpty(g), true, "restricted", "", "")
		return b
	}
	badVersions := []string{"2.0", "", "0.9", "11.3", ".1", "x", " 1.0", "２.0"}
	wrongVals := []interface{}{1.0, true, []interface{}{}, map[string]interface{}{}, []interface{}{"x"}}
	defects := []defect{
		{"rejects-version", 0, validPoll, func(m map[string]interface{}) { m["Version"] = badVersions[rng.Intn(len(badVersions))] }},
		{"rejects-version", 4, validAns, func(m map[string]interface{}) { m["Version"] = badVersions[rng.Intn(len(badVersions))] }},
		{"rejects-version", 0, validPoll, func(m map[string]interface{}) { delete(m, "Version") }},
		{"rejects-missing-sid", 0, validPoll, func(m map[string]interface{}) { delete(m, "Sid") }},
		{"rejects-missing-sid", 0, validPoll, func(m map[string]interface{}) { m["Sid"] = "" }},
		{"rejects-missing-sid-or-answer", 4, validAns, func(m map[string]interface{}) { delete(m, []string{"Sid", "Answer"}[rng.Intn(2)]) }},
		{"rejects-nat", 0, validPoll, func(m map[string]interface{}) {
			m["NAT"] = []string{"bogus", "Unknown", " ", "restricted\n"}[rng.Intn(4)]
		}},
		{"rejects-nat", 6, validClient, func(m map[string]interface{}) {
			m["nat"] = []string{"bogus", "Unknown", " ", "restricted\n"}[rng.Intn(4)]
		}},
		{"rejects-missing-offer", 6, validClient, func(m map[string]interface{}) { delete(m, "offer") }},
		{"rejects-missing-offer", 2, validMatch, func(m map[string]interface{}) { delete(m, "Offer") }},
		{"rejects-fingerprint", 6, validClient, func(m map[string]interface{}) {
			m["fingerprint"] = []string{"zz", "2B280B23E1107BB62ABFC40DDCC8824814F80A7", "2B280B23E1107BB62ABFC40DDCC8824814F80A72AA", " 2B280B23E1107BB62ABFC40DDCC8824814F80A72", "2B280B23E1107BB62ABFC40DDCC8824814F80A7G"}[rng.Intn(5)]
		}},
		{"rejects-wrong-type", 0, validPoll, func(m map[string]interface{}) {
			m[[]string{"Sid", "Version", "Type", "NAT", "AcceptedRelayPattern"}[rng.Intn(5)]] = wrongVals[rng.Intn(len(wrongVals))]
		}},
		{"rejects-wrong-type", 0, validPoll, func(m map[string]interface{}) {
			m["Clients"] = []interface{}{"8", 1.5, true, 1e30, []interface{}{}, map[string]interface{}{}}[rng.Intn(6)]
		}},
		{"rejects-wrong-type", 4, validAns, func(m map[string]interface{}) {
			m[[]string{"Sid", "Version", "Answer"}[rng.Intn(3)]] = wrongVals[rng.Intn(len(wrongVals))]
		}},
		{"rejects-wrong-type", 6, validClient, func(m map[string]interface{}) {
			m[[]string{"offer", "nat", "fingerprint"}[rng.Intn(3)]] = wrongVals[rng.Intn(len(wrongVals))]
		}},
		{"rejects-wrong-type", 2, validMatch, func(m map[string]interface{}) {
			m[[]string{"Status", "Offer", "NAT", "RelayURL"}[rng.Intn(4)]] = wrongVals[rng.Intn(len(wrongVals))]
		}},
	}
	for i, n := 0, r.N(600, 12000); i < n; i++ {
		d := defects[rng.Intn(len(defects))]
		var m map[string]interface{}
		if json.Unmarshal(d.base(), &m) != nil {
			continue
		}
		d.edit(m)
		b, _ := json.Marshal(m)
		if d.dec == 6 {
			b = append([]byte(ClientVersion+"\n"), b...)
		}
		got := decode(d.dec, "defect:"+d.key, b)
		if got != "err" {
			r.OracleFail(d.key, "c12 "+c12decoders[d.dec].op+" "+vh.Hex(b), got, "must be rejected with an error: "+c12trunc(string(b)))
		}
	}
	for _, top := range []string{`[]`, `"x"`, `1`, `true`, `[{"Sid":"x","Version":"1.0"}]`, `"{}"`} {
		for i := range c12decoders {
			data := []byte(top)
			if i == 6 {
				data = []byte("1.0\n" + top)
			}
			if got := decode(i, "toplevel", data); got != "err" {
				r.OracleFail("rejects-wrong-toplevel", "c12 "+c12decoders[i].op+" "+vh.Hex(data), got, "a top-level value that is not an object must be rejected")
			}
		}
	}

	// 3. structured documents: members present / absent / null / wrong type / duplicated / re-spelled
	{
		ig := &vh.JGen{Rng: rand.New(rand.NewSource(r.Seed + 77))}
		var cs []string
		for i := 0; i < r.N(400, 4000); i++ {
			st := c12structNames[ig.Rng.Intn(len(c12structNames))]
			doc, _ := c12doc(ig, st)
			cs = append(cs, fmt.Sprintf("%d|%s", ig.Rng.Intn(len(c12decoders)), doc))
			if ig.Rng.Intn(3) == 0 { // the right decoder for the document
				ops := c12structOps[st]
				cs[len(cs)-1] = fmt.Sprintf("%d|%s", ops[ig.Rng.Intn(len(ops))], doc)
			}
		}
		r.Independent("decoders", "the message decoders", cs, func(c string) string {
			k := strings.IndexByte(c, '|')
			var i int
			fmt.Sscanf(c[:k], "%d", &i)
			return c12decoders[i].run([]byte(c[k+1:]))
		})
	}
	for i, n := 0, r.N(2500, 50000); i < n; i++ {
		st := c12structNames[rng.Intn(len(c12structNames))]
		doc, label := c12doc(g, st)
		keep([]byte(doc))
		for _, k := range c12structOps[st] {
			decode(k, "doc:"+label, []byte(doc))
		}
		if rng.Intn(4) == 0 { // a document of one message offered to the decoder of another
			decode(rng.Intn(len(c12decoders)), "doc:foreign", []byte(doc))
		}
	}

	// 4. fixed corner cases for every decoder
	fixed := []string{``, ` `, `null`, ` null `, `{}`, `{"Sid":"x"}`, `{"Version":"1.0","Sid":"x","Answer":"y"}`, `{"version":"1.0","sid":"x","answer":"y","nat":"unknown"}`,
		`{"Status":"client match","Offer":"o"}`, `{"Status":"no match"}`, `{"ſtatus":"success"}`, `{"STATUS":"client gone"}`, `{"Status":"x","NAT":"n","RelayURL":"u"}`,
		`{"answer":"a"}`, `{"error":"e"}`, `{"Answer":"a","ERROR":null}`, `{"answer":null,"error":null}`, `{"answer":"","error":""}`,
		`{"Sid":"s","Version":"1.3","Clients":9223372036854775807}`, `{"Sid":"s","Version":"1.3","Clients":9223372036854775808}`, `{"Sid":"s","Version":"1.3","Clients":-9223372036854775808}`,
		`{"Sid":"s","Version":"1.3","Clients":1.0}`, `{"Sid":"s","Version":"1.3","Clients":"8"}`, `{"Sid":"s","Version":"1.3","Clients":null}`, `{"Sid":"s","Version":"1.3","Clients":1e2}`, `{"Sid":"s","Version":"1.3","Clients":-0}`,
		`{"Sid":"s","Version":"1.3","AcceptedRelayPattern":null}`, `{"Sid":"s","Version":"1.3","AcceptedRelayPattern":"x","AcceptedRelayPattern":null}`, `{"Sid":"s","Version":"1.3","AcceptedRelayPattern":null,"acceptedrelaypattern":""}`,
		`{"Sid":"s","Version":"1.3","AcceptedRelayPattern":7}`, `{"Sid":"s","Version":"1.3","x":1e999}`, `{"Sid":"s","Version":"1.3","x":[1,{"y":[]}]}`, `{"Sid":"s","Version":"1.3","Sid":null}`, `{"Sid":"s","Version":"1.3","Sid":7}`,
		`{"Sid":"s","Version":"1.3","Type":"standalone","NAT":"restricted","Clients":8}`, `{"Sid":"😀\ud800","Version":"1.3"}`, "{\"Sid\":\"\xff\",\"Version\":\"1.3\"}", "{\"Sid\":\"s\",\"Version\":\"1.3\"}\xff",
		`{"Sid":"s","Version":"1.3"} x`, `{"Sid":"s","Version":"1.3",}`, `{"Sid":"s" "Version":"1.3"}`, `{"offer":"o","fingerprint":"2b280b23e1107bb62abfc40ddcc8824814f80a72"}`,
		`{"offer":"o","fingerprint":"2B280B23E1107BB62ABFC40DDCC8824814F80A722B280B23E1107BB62ABFC40D"}`, `{"offer":"o","fingerprint":""}`, `{"offer":"o","fingerprint":null}`, `{"offer":"o","nat":"restricted","NAT":"bogus"}`,
	}
	for _, f := range fixed {
		keep([]byte(f))
		for i := range c12decoders {
			data := []byte(f)
			decode(i, "fixed", data)
			if i == 6 {
				decode(i, "fixed", append([]byte("1.0\n"), data...))
			}
		}
	}
	for _, nn := range []int{9999, 10000, 10001} {
		for _, doc := range []string{`{"Sid":"s","Version":"1.3","x":` + g.Deep(nn-1, '[', true) + `}`, g.Deep(nn, '[', true), g.Deep(nn, '[', false), `{"Sid":"s","Version":"1.3","x":` + g.Deep(nn-1, '{', true) + `}`} {
			decode(0, "deep", []byte(doc))
			decode(6, "deep", []byte("1.0\n"+doc))
			decode(rng.Intn(len(c12decoders)), "deep", []byte(doc))
		}
	}

	// 5. malformed stream: mutations and truncations of everything above, random bytes
	for i, n := 0, r.N(2500, 50000); i < n; i++ {
		var data []byte
		class := "mutated"
		switch rng.Intn(8) {
		case 0:
			data, class = []byte(g.RandomBytes()), "random"
		case 1:
			b := corpus[rng.Intn(len(corpus))]
			data, class = b[:rng.Intn(len(b)+1)], "truncated"
		default:
			data = []byte(g.Mutate(string(corpus[rng.Intn(len(corpus))])))
		}
		k := rng.Intn(len(c12decoders))
		if k == 6 && rng.Intn(2) == 0 && !strings.HasPrefix(string(data), "1.0\n") {
			data = append([]byte("1.0\n"), data...)
		}
		decode(k, class, data)
		if rng.Intn(3) == 0 {
			decode(rng.Intn(len(c12decoders)), class, data)
		}
	}
}
