//go:build verif

package snowflake_client

// C11 harness, client side: real Exchange of both rendezvous methods against a loopback server that
// records the dialled address, request line and Host header and serves generated statuses and body
// sizes around the 100 000 byte limit.

import (
	"bytes"
	"context"
	"fmt"
	"io"
	"log"
	"math/rand"
	"net"
	"net/http"
	"net/http/httptest"
	"net/url"
	"strings"
	"sync"
	"testing"
	"time"

	"git.torproject.org/pluggable-transports/snowflake.git/v2/common/amp"
	vh "git.torproject.org/pluggable-transports/snowflake.git/v2/common/zzverif"
)

type c11Seen struct {
	method, host, path, rawQuery, requestURI string
	body                                     []byte
}

type c11Front struct {
	mu      sync.Mutex
	srv     *httptest.Server
	seen    []c11Seen
	dialled []string
	// what to serve next
	status   int
	body     []byte
	location string
}

func (f *c11Front) ServeHTTP(w http.ResponseWriter, r *http.Request) {
	b, _ := io.ReadAll(r.Body)
	f.mu.Lock()
	f.seen = append(f.seen, c11Seen{r.Method, r.Host, r.URL.Path, r.URL.RawQuery, r.RequestURI, b})
	status, body, loc := f.status, f.body, f.location
	f.mu.Unlock()
	if loc != "" {
		w.Header().Set("Location", loc)
	}
	w.Header().Set("Content-Length", fmt.Sprint(len(body)))
	w.WriteHeader(status)
	w.Write(body)
}

// transport whose dialler records the address the client asked for and always connects to the front server
func (f *c11Front) transport() *http.Transport {
	addr := f.srv.Listener.Addr().String()
	return &http.Transport{
		DialContext: func(ctx context.Context, network, a string) (net.Conn, error) {
			f.mu.Lock()
			f.dialled = append(f.dialled, a)
			f.mu.Unlock()
			var d net.Dialer
			return d.DialContext(ctx, network, addr)
		},
		DisableKeepAlives:     true,
		ResponseHeaderTimeout: 20 * time.Second,
	}
}

// c11Flaky: a round tripper whose first failFirst attempts fail below HTTP (connection refused, timeout, EOF); it
// records, for every attempt it is asked to make, where the connection would go (URL host) and the Host header.
type c11Flaky struct {
	inner     http.RoundTripper
	failFirst int
	err       error
	mu        sync.Mutex
	attempts  [][2]string
}

func (x *c11Flaky) RoundTrip(req *http.Request) (*http.Response, error) {
	hostHdr := req.Host
	if hostHdr == "" {
		hostHdr = req.URL.Host
	}
	x.mu.Lock()
	x.attempts = append(x.attempts, [2]string{req.URL.Host, hostHdr})
	n := len(x.attempts)
	x.mu.Unlock()
	if n <= x.failFirst {
		if req.Body != nil {
			req.Body.Close()
		}
		return nil, x.err
	}
	return x.inner.RoundTrip(req)
}

type c11NetTimeout struct{}

func (c11NetTimeout) Error() string   { return "c11: i/o timeout" }
func (c11NetTimeout) Timeout() bool   { return true }
func (c11NetTimeout) Temporary() bool { return true }

// c11FlakyCases: the first attempt(s) of an exchange fail below HTTP. Whatever the method does then (give up or
// try again), every attempt it makes goes to the front with the broker's (or cache's) name in the Host header.
func c11FlakyCases(t *testing.T, r *vh.Run, f *c11Front, brokers, fronts, caches []string) {
	errs := []struct {
		name string
		err  error
	}{
		{"connection refused", &net.OpError{Op: "dial", Net: "tcp", Err: fmt.Errorf("connect: connection refused")}},
		{"timeout", &net.OpError{Op: "dial", Net: "tcp", Err: c11NetTimeout{}}},
		{"EOF", io.EOF},
		{"unexpected EOF", io.ErrUnexpectedEOF},
	}
	k := 0
	for _, front := range fronts[1:] {
		for _, e := range errs {
			for _, viaAMP := range []bool{false, true} {
				k++
				broker := brokers[k%len(brokers)]
				cache := caches[1+k%(len(caches)-1)]
				failFirst := 1 + k%2
				f.mu.Lock()
				f.status, f.body, f.location, f.seen, f.dialled = 200, c11Armor([]byte("answer")), "", nil, nil
				f.mu.Unlock()
				fl := &c11Flaky{inner: f.transport(), failFirst: failFirst, err: e.err}
				var m RendezvousMethod
				var err error
				wantHost := ""
				if viaAMP {
					m, err = newAMPCacheRendezvous(broker, cache, front, fl)
					cu, _ := url.Parse(cache)
					wantHost = cu.Host
				} else {
					m, err = newHTTPRendezvous(broker, front, fl)
					bu, _ := url.Parse(broker)
					wantHost = bu.Host
				}
				if err != nil {
					t.Fatal(err)
				}
				res := c11Exchange(m, []byte("poll"))
				fl.mu.Lock()
				attempts := append([][2]string(nil), fl.attempts...)
				fl.mu.Unlock()
				caseLine := fmt.Sprintf("amp=%v broker=%s cache=%s front=%q: the first %d attempt(s) fail with %s -> %d attempt(s) %v", viaAMP, broker, cache, front, failFirst, e.name, len(attempts), attempts)
				r.Case(fmt.Sprintf("flaky-transport/amp=%v/%s/fail%d", viaAMP, e.name, failFirst), caseLine, true)
				if res.out != "returned" {
					r.OracleFail("exchange-"+strings.SplitN(res.out, ":", 2)[0], caseLine, res.out, "Exchange must return")
					continue
				}
				for i, a := range attempts {
					if a[0] != front {
						r.OracleFail("fronting-connection-target", caseLine, fmt.Sprintf("attempt %d connects to %s", i+1, a[0]), "every attempt, also one made after a failed one, must connect to the front "+front)
					}
					if !viaAMP && a[1] != wantHost {
						r.OracleFail("fronting-host-header", caseLine, fmt.Sprintf("attempt %d carries Host %s", i+1, a[1]), "the Host header must name "+wantHost)
					}
					if viaAMP && !strings.HasSuffix(a[1], wantHost) {
						r.OracleFail("fronting-host-header", caseLine, fmt.Sprintf("attempt %d carries Host %s", i+1, a[1]), "the Host header must name the cache host (with its domain prefix) "+wantHost)
					}
				}
			}
		}
	}
}

func c11ErrClass(err error) string {
	switch {
	case err == nil:
		return "ok"
	case err == io.ErrUnexpectedEOF:
		return "unexpectedEOF"
	case err.Error() == brokerErrorUnexpected:
		return "unexpected"
	}
	return "other"
}

type c11Result struct {
	data []byte
	err  error
	out  string
}

func c11Exchange(m RendezvousMethod, req []byte) c11Result {
	ch := make(chan c11Result, 1)
	go func() {
		defer func() {
			if x := recover(); x != nil {
				ch <- c11Result{out: fmt.Sprintf("panic:%v", x)}
			}
		}()
		d, err := m.Exchange(req)
		ch <- c11Result{data: d, err: err, out: "returned"}
	}()
	select {
	case x := <-ch:
		return x
	case <-time.After(60 * time.Second):
		return c11Result{out: "blocked"}
	}
}

func c11HostPort(u *url.URL) string { // what the dialler is asked for when no front is configured
	if u.Port() != "" {
		return u.Host
	}
	if u.Scheme == "https" {
		return u.Host + ":443"
	}
	return u.Host + ":80"
}

func c11Armor(payload []byte) []byte {
	var buf bytes.Buffer
	enc, err := amp.NewArmorEncoder(&buf)
	if err != nil {
		panic(err)
	}
	enc.Write(payload)
	enc.Close()
	return buf.Bytes()
}

// c11ArmorOfSize returns an armor document of exactly n bytes (payload chosen to fit, trailing whitespace as filler)
func c11ArmorOfSize(rng *rand.Rand, n int) (doc, payload []byte) {
	pl := (n - 1200) * 3 / 4 * 32 / 33
	if pl < 0 {
		pl = 0
	}
	for {
		payload = make([]byte, pl)
		rng.Read(payload)
		doc = c11Armor(payload)
		if len(doc) <= n {
			break
		}
		pl -= 30
		if pl < 0 {
			pl = 0
		}
	}
	doc = append(doc, bytes.Repeat([]byte("\n"), n-len(doc))...)
	return doc, payload
}

func TestVerifC11Client(t *testing.T) {
	r := vh.Start("C11")
	defer r.Finish()
	rng := r.Rng
	log.SetOutput(io.Discard)

	f := &c11Front{}
	f.srv = httptest.NewServer(f)
	defer f.srv.Close()

	// ---------------------------------------------------------------- limitedRead in isolation
	for _, limit := range []int64{0, 1, 5, 100, readLimit} {
		for _, n := range []int64{0, 1, limit - 1, limit, limit + 1, limit + 2, 2*limit + 3} {
			if n < 0 {
				continue
			}
			body := bytes.Repeat([]byte("x"), int(n))
			p, err := limitedRead(bytes.NewReader(body), limit)
			line := fmt.Sprintf("c11 limited %d %d", limit, n)
			r.Case(fmt.Sprintf("limitedRead/%s", c11ErrClass(err)), line, true)
			r.Compare("limitedRead", line, fmt.Sprintf("%d %s", len(p), c11ErrClass(err)), r.Model(line))
			if n > limit && err == nil {
				r.OracleFail("limit-not-enforced", line, fmt.Sprint(len(p)), "a body beyond the limit must be an error")
			}
			if err == nil && !bytes.Equal(p, body) {
				r.OracleFail("limit-truncated-success", line, fmt.Sprint(len(p)), "without an error the complete body must be returned")
			}
		}
	}

	brokers := []string{"http://broker.invalid/", "http://broker.invalid/sub/", "http://broker.invalid:8080/x/", "http://snowflake-broker.example.invalid", "http://broker.invalid/a/b?q=1"}
	fronts := []string{"", "front.invalid", "front.invalid:8443", "cdn.front.invalid"}
	caches := []string{"", "http://cache.invalid/", "http://amp.cache.invalid/amp/", "http://cache.invalid:8081"}
	statuses := []int{200, 200, 200, 200, 201, 301, 302, 307, 400, 404, 500, 503}
	sizes := []int{0, 1, 50, 5000, readLimit - 1, readLimit, readLimit + 1, readLimit + 2, readLimit + 5000}

	// ---------------------------------------------------------------- HTTP rendezvous
	for k := 0; k < r.N(120, 1500); k++ {
		broker := brokers[rng.Intn(len(brokers))]
		front := fronts[rng.Intn(len(fronts))]
		status := statuses[rng.Intn(len(statuses))]
		n := sizes[rng.Intn(len(sizes))]
		if k < len(sizes)*2 {
			n, status = sizes[k%len(sizes)], 200
		}
		body := make([]byte, n)
		rng.Read(body)
		req := make([]byte, 1+rng.Intn(300))
		rng.Read(req)
		hloc := ""
		if status/100 == 3 && rng.Intn(3) != 0 {
			// a front or broker that redirects: the answer is a non-200 status to report, not a trail to follow
			hloc = []string{"http://redirect-target.invalid/client", "/client", "https://broker.invalid/elsewhere"}[rng.Intn(3)]
		}
		f.mu.Lock()
		f.status, f.body, f.location, f.seen, f.dialled = status, body, hloc, nil, nil
		f.mu.Unlock()
		m, err := newHTTPRendezvous(broker, front, f.transport())
		if err != nil {
			t.Fatal(err)
		}
		res := c11Exchange(m, req)
		caseLine := fmt.Sprintf("http broker=%s front=%q status=%d location=%q bodylen=%d", broker, front, status, hloc, n)
		r.Case(fmt.Sprintf("http/front=%v/status200=%v/size%+d/%s", front != "", status == 200, c11Bucket(n), c11ErrClass(res.err)), caseLine, true)
		if res.out != "returned" {
			r.OracleFail("exchange-"+strings.SplitN(res.out, ":", 2)[0], caseLine, res.out, "Exchange must return")
			continue
		}
		ml := fmt.Sprintf("c11 httpx %d %d", status, n)
		r.Compare("httpExchange", ml, fmt.Sprintf("%d %s %v", len(res.data), c11ErrClass(res.err), res.err == nil), r.Model(ml))
		c11CheckLimit(r, caseLine, status, n, res, body)
		bu, _ := url.Parse(broker)
		c11CheckFront(r, f, caseLine, front, bu.Host, c11HostPort(bu))
		f.mu.Lock()
		seen := append([]c11Seen(nil), f.seen...)
		f.mu.Unlock()
		if len(seen) == 1 {
			want := bu.ResolveReference(&url.URL{Path: "client"})
			if seen[0].method != "POST" || seen[0].path != want.Path || !bytes.Equal(seen[0].body, req) {
				r.OracleFail("http-request-shape", caseLine, fmt.Sprintf("%s %s body %d bytes", seen[0].method, seen[0].requestURI, len(seen[0].body)),
					"the poll must be POSTed unchanged to <broker path>client")
			}
		}
	}

	c11FlakyCases(t, r, f, brokers, fronts, caches)

	// ---------------------------------------------------------------- AMP cache rendezvous
	type ampDoc struct {
		doc, payload []byte
		valid        bool
		class        string
	}
	var docs []ampDoc
	for _, n := range []int{readLimit - 1, readLimit, readLimit + 1, readLimit + 2, readLimit + 4000} {
		d, p := c11ArmorOfSize(rng, n)
		docs = append(docs, ampDoc{d, p, true, fmt.Sprintf("size%+d", n-readLimit)})
	}
	for _, pl := range []int{0, 1, 100, 3000, 70000, 80000} {
		p := make([]byte, pl)
		rng.Read(p)
		d := c11Armor(p)
		docs = append(docs, ampDoc{d, p, true, fmt.Sprintf("payload%d", pl)})
	}
	docs = append(docs,
		ampDoc{[]byte("<pre>\n1aGk=\n</pre>"), nil, false, "bad-version"},
		ampDoc{[]byte("<pre>\n0aGk=\n"), nil, false, "missing-end"},
		ampDoc{[]byte("<pre>\n0aG!k=\n</pre>"), nil, false, "bad-base64"},
		ampDoc{[]byte("<html><body>redirect</body></html>"), nil, false, "no-armor"},
		ampDoc{nil, nil, false, "empty"})
	for k := 0; k < r.N(150, 1500); k++ {
		broker := brokers[rng.Intn(len(brokers))]
		front := fronts[rng.Intn(len(fronts))]
		cache := caches[rng.Intn(len(caches))]
		status := statuses[rng.Intn(len(statuses))]
		d := docs[rng.Intn(len(docs))]
		if k < 2*len(docs) {
			d, status = docs[k%len(docs)], 200
		}
		loc := ""
		if rng.Intn(8) == 0 {
			loc = "https://broker.invalid/amp/client/x"
		}
		req := make([]byte, 1+rng.Intn(300))
		rng.Read(req)
		f.mu.Lock()
		f.status, f.body, f.location, f.seen, f.dialled = status, d.doc, loc, nil, nil
		f.mu.Unlock()
		m, err := newAMPCacheRendezvous(broker, cache, front, f.transport())
		if err != nil {
			t.Fatal(err)
		}
		res := c11Exchange(m, req)
		caseLine := fmt.Sprintf("amp broker=%s cache=%q front=%q status=%d location=%v doc=%s(%d bytes)", broker, cache, front, status, loc != "", d.class, len(d.doc))
		if bu0, _ := url.Parse(broker); cache != "" && bu0.Port() != "" {
			// a broker on a non-default port cannot be reached through an AMP cache: CacheURL refuses, nothing is sent
			f.mu.Lock()
			nreq := len(f.seen)
			f.mu.Unlock()
			r.Case("amp/cache-port-rejected", caseLine, true)
			if res.err == nil || nreq != 0 {
				r.OracleFail("amp-cache-port-guard", caseLine, fmt.Sprintf("err=%v requests=%d", res.err, nreq), "CacheURL's port guard must stop the exchange before any request")
			}
			continue
		}
		r.Case(fmt.Sprintf("amp/cache=%v/front=%v/status200=%v/loc=%v/%s/%s", cache != "", front != "", status == 200, loc != "", d.class, c11ErrClass(res.err)), caseLine, true)
		if res.out != "returned" {
			r.OracleFail("exchange-"+strings.SplitN(res.out, ":", 2)[0], caseLine, res.out, "Exchange must return")
			continue
		}
		lb := "0"
		if loc != "" {
			lb = "1"
		}
		ml := fmt.Sprintf("c11 ampx 512 %d %s %s", status, lb, vh.Hex(d.doc))
		realLine := vh.Hex(res.data) + " " + c11ErrClass(res.err)
		if res.err != nil && c11ErrClass(res.err) == "other" {
			realLine = vh.Hex(res.data) + " armor"
		}
		r.Compare("ampExchange", fmt.Sprintf("c11 ampx 512 %d %s <%s>", status, lb, d.class)+"   # "+caseLine, realLine, r.Model(ml))
		// oracle
		switch {
		case status != 200 || loc != "" || len(d.doc) > readLimit || !d.valid:
			if res.err == nil {
				r.OracleFail("amp-limit-or-status-not-enforced", caseLine, fmt.Sprintf("%d bytes, nil error", len(res.data)),
					"non-200 status, a Location header, a body beyond the limit and invalid armor must be errors")
			}
		default:
			if res.err != nil || !bytes.Equal(res.data, d.payload) {
				r.OracleFail("amp-exchange-roundtrip", caseLine, fmt.Sprintf("%d bytes, %v", len(res.data), res.err), "a valid armored response within the limit must be returned completely")
			}
		}
		if res.err == nil && d.valid && !bytes.Equal(res.data, d.payload) {
			r.OracleFail("amp-truncated-success", caseLine, fmt.Sprint(len(res.data)), "never a truncated payload without an error")
		}
		// request shape and fronting
		bu, _ := url.Parse(broker)
		reqURL := bu.ResolveReference(&url.URL{Path: "amp/client/x"})
		wantHost, wantDial := bu.Host, c11HostPort(bu)
		wantPrefix := strings.TrimSuffix(reqURL.Path, "x")
		if cache != "" {
			cu, _ := url.Parse(cache)
			cr, err := amp.CacheURL(reqURL, cu, "c")
			if err != nil {
				t.Fatal(err)
			}
			wantHost, wantDial = cr.Host, c11HostPort(cr)
			p := cr.EscapedPath()
			if !strings.HasPrefix(p, "/") {
				p = "/" + p
			}
			wantPrefix = strings.TrimSuffix(p, "x")
		}
		c11CheckFront(r, f, caseLine, front, wantHost, wantDial)
		f.mu.Lock()
		seen := append([]c11Seen(nil), f.seen...)
		f.mu.Unlock()
		if len(seen) == 1 {
			ok := seen[0].method == "GET" && strings.HasPrefix(seen[0].path, wantPrefix) && len(seen[0].body) == 0
			if ok {
				got, err := amp.DecodePath(strings.TrimPrefix(seen[0].path, wantPrefix))
				ok = err == nil && bytes.Equal(got, req)
			}
			if seen[0].rawQuery != reqURL.RawQuery { // ResolveReference drops the broker URL's own query
				ok = false
			}
			if !ok {
				r.OracleFail("amp-request-shape", caseLine, fmt.Sprintf("%s %s", seen[0].method, seen[0].requestURI),
					"the poll must travel in the path after "+wantPrefix+" and decode to the poll request")
			}
		}
	}
}

func c11Bucket(n int) int {
	switch {
	case n < readLimit-1:
		return -2
	case n > readLimit+2:
		return 3
	}
	return n - readLimit
}

func c11CheckLimit(r *vh.Run, caseLine string, status, n int, res c11Result, body []byte) {
	if status != 200 && res.err == nil {
		r.OracleFail("status-not-enforced", caseLine, fmt.Sprint(len(res.data)), "a non-200 status must be an error")
	}
	if n > readLimit && res.err == nil {
		r.OracleFail("limit-not-enforced", caseLine, fmt.Sprint(len(res.data)), "a body beyond the limit must be an error")
	}
	if res.err == nil && !bytes.Equal(res.data, body) {
		r.OracleFail("limit-truncated-success", caseLine, fmt.Sprint(len(res.data)), "without an error the complete body must be returned, never truncated data")
	}
	if status == 200 && n <= readLimit && res.err != nil {
		r.OracleFail("exchange-spurious-error", caseLine, res.err.Error(), "a 200 response within the limit must be accepted")
	}
}

// c11CheckFront: with a front the connection goes to the front and only the Host header names urlHost.
func c11CheckFront(r *vh.Run, f *c11Front, caseLine, front, urlHost, urlDial string) {
	f.mu.Lock()
	dialled := append([]string(nil), f.dialled...)
	seen := append([]c11Seen(nil), f.seen...)
	f.mu.Unlock()
	if len(dialled) != 1 || len(seen) != 1 {
		r.OracleFail("fronting-request-count", caseLine, fmt.Sprintf("dials=%v requests=%d", dialled, len(seen)), "exactly one connection and one request per Exchange")
		return
	}
	wantDial := urlDial
	if front != "" {
		wantDial = front
		if !strings.Contains(front, ":") {
			wantDial = front + ":80"
		}
	}
	ml := fmt.Sprintf("c11 front %s %s", vh.Hex([]byte(front)), vh.Hex([]byte(urlHost)))
	dialHost := dialled[0]
	if front == "" {
		dialHost = urlHost // the model speaks about URL hosts; default ports are net/http's business
	} else if !strings.Contains(front, ":") {
		dialHost = strings.TrimSuffix(dialled[0], ":80")
	}
	r.Compare("fronting", ml+"   # "+caseLine, vh.Hex([]byte(dialHost))+" "+vh.Hex([]byte(seen[0].host)), r.Model(ml))
	if dialled[0] != wantDial {
		r.OracleFail("fronting-connection-target", caseLine, dialled[0], "the TCP connection must go to "+wantDial)
	}
	if seen[0].host != urlHost {
		r.OracleFail("fronting-host-header", caseLine, seen[0].host, "the Host header must name "+urlHost)
	}
}
