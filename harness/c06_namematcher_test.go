//go:build verif

package namematcher

// C06 correspondence + oracle harness for the matcher (virtual file in common/namematcher).

import (
	"fmt"
	"math/rand"
	"strings"
	"testing"

	vh "git.torproject.org/pluggable-transports/snowflake.git/v2/common/zzverif"
)

var c06parts = []string{"a", "b", ".", "net", "snowflake", "torproject", "-", "x", "", "^", "$", "bridge", "01"}

func c06host(rng *rand.Rand) string {
	return c06case(rng, c06hostLower(rng))
}

// c06case: hostnames and patterns are byte strings; letter case is part of them.
func c06case(rng *rand.Rand, s string) string {
	switch rng.Intn(5) {
	case 0:
		return strings.ToUpper(s)
	case 1:
		b := []byte(s)
		for i := range b {
			if rng.Intn(3) == 0 && b[i] >= 'a' && b[i] <= 'z' {
				b[i] -= 32
			}
		}
		return string(b)
	}
	return s
}

func c06hostLower(rng *rand.Rand) string {
	switch rng.Intn(6) {
	case 0:
		return "snowflake.torproject.net"
	case 1:
		return "faketorproject.net"
	}
	s := ""
	for i, n := 0, rng.Intn(5); i < n; i++ {
		s += c06parts[rng.Intn(9)]
	}
	return s
}

func c06pattern(rng *rand.Rand, host string) string {
	p := host
	if rng.Intn(3) == 0 {
		p = strings.ToLower(host) // same name, different letter case than the hostname tried
	}
	switch rng.Intn(5) {
	case 0:
		p = c06host(rng)
	case 1, 2:
		if len(host) > 0 {
			p = host[rng.Intn(len(host)):]
		}
	case 3:
		p = c06host(rng) + host
	}
	if rng.Intn(3) == 0 {
		p = "^" + p
	}
	if rng.Intn(4) != 0 {
		p = p + "$"
	}
	if rng.Intn(30) == 0 {
		p = "^" + p + "$" + "$"
	}
	if rng.Intn(40) == 0 {
		p = ""
	}
	return p
}

func TestVerifC06Matcher(t *testing.T) {
	r := vh.Start("C06")
	defer r.Finish()
	{
		irng := rand.New(rand.NewSource(r.Seed + 77))
		var cs []string
		for i := 0; i < r.N(300, 3000); i++ {
			h := c06host(irng)
			cs = append(cs, c06pattern(irng, h)+"|"+c06pattern(irng, h)+"|"+c06case(irng, h))
		}
		r.Independent("matcher", "NewNameMatcher / IsMember / IsSupersetOf", cs, func(c string) string {
			f := strings.SplitN(c, "|", 3)
			a, b := NewNameMatcher(f[0]), NewNameMatcher(f[1])
			return fmt.Sprint(a.IsMember(f[2]), b.IsMember(f[2]), a.IsSupersetOf(b), b.IsSupersetOf(a), IsValidRule(f[0]))
		})
	}
	rng := r.Rng
	bs := func(x bool) string { return fmt.Sprint(x) }
	for i := 0; i < r.N(4000, 80000); i++ {
		h := c06host(rng)
		pa := c06pattern(rng, h)
		pb := c06pattern(rng, h)
		ma, mb := NewNameMatcher(pa), NewNameMatcher(pb)
		sup := ma.IsSupersetOf(mb)
		memA, memB := ma.IsMember(h), mb.IsMember(h)
		class := fmt.Sprintf("triple/sup=%v/memB=%v/exactA=%v/exactB=%v", sup, memB, ma.exact, mb.exact)
		line := fmt.Sprintf("c06 sup %s %s", vh.Hex([]byte(pa)), vh.Hex([]byte(pb)))
		r.Case(class, line+" host "+vh.Hex([]byte(h)), sup || memB)
		r.Compare("sup", line, bs(sup), r.Model(line))
		l2 := fmt.Sprintf("c06 mem %s %s", vh.Hex([]byte(pa)), vh.Hex([]byte(h)))
		r.Compare("mem", l2, bs(memA), r.Model(l2))
		l3 := fmt.Sprintf("c06 new %s", vh.Hex([]byte(pa)))
		r.Compare("new", l3, fmt.Sprintf("%v %s", ma.exact, vh.Hex([]byte(ma.suffix))), r.Model(l3))
		l4 := fmt.Sprintf("c06 valid %s", vh.Hex([]byte(pa)))
		r.Compare("valid", l4, bs(IsValidRule(pa)), r.Model(l4))
		if sup && memB && !memA {
			r.OracleFail("superset-law", fmt.Sprintf("a=%q b=%q host=%q", pa, pb, h), "sup=true memB=true memA=false",
				"a pattern judged a superset of another must accept every hostname the other accepts")
		}
	}
}
