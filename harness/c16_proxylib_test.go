//go:build verif

package snowflake_proxy

// C16 harness: the proxy's session slots (tokens_t, runSession, datachannelHandler) against the model
// `lean/Snowflake/Model/ProxySlots.lean`, plus the proxy-side clause of C06 (relay URLs).
//
//  A. real tokens_t on get/ret/count sequences (every call in its own goroutine, deadlines) vs the model;
//  B. the real runSession driven by a scripted broker (httptest) through its exit paths in generated
//     orders, with handler goroutines of connected sessions overlapping: no offer (HTTP error, garbage,
//     error status, undecodable offer), unparsable relay URL, rejected relay URL, offer that cannot be
//     applied, answer refused, relay unreachable, normal end; observed: tokens.count() after every event
//     and the Clients field of the polls;
//  C. sessions whose client never opens the data channel (20 s dataChannelTimeout), run in parallel, and
//     the F11 schedule forced through the log writer: the OnDataChannel callback is held at its first
//     statement until the timer arm of runSession's select has been taken;
//  D. C06: generated relay URLs returned by the scripted broker; the proxy must not proceed to /answer
//     (nor dial a decoy relay listener) for a URL outside its pattern or a non-wss URL without the flag.
//
// Parts that need a pion client run only if a 2-peer self-test connects; otherwise they are skipped
// and recorded.

import (
	"bytes"
	"fmt"
	"io"
	"log"
	"math/rand"
	"net"
	"net/http"
	"net/http/httptest"
	"net/url"
	"os"
	"os/exec"
	"sort"
	"strings"
	"sync"
	"sync/atomic"
	"testing"
	"time"

	"git.torproject.org/pluggable-transports/snowflake.git/v2/common/event"
	"git.torproject.org/pluggable-transports/snowflake.git/v2/common/messages"
	"git.torproject.org/pluggable-transports/snowflake.git/v2/common/util"
	vh "git.torproject.org/pluggable-transports/snowflake.git/v2/common/zzverif"
	"github.com/gorilla/websocket"
	"github.com/pion/ice/v2"
	"github.com/pion/webrtc/v3"
)

// ---------------------------------------------------------------------------------------------
// A. tokens_t

func c16Async(f func() string) chan string {
	ch := make(chan string, 1)
	go func() {
		defer func() {
			if e := recover(); e != nil {
				ch <- "panic"
			}
		}()
		ch <- f()
	}()
	return ch
}

func c16RunTokens(N int, ops string, scale time.Duration) ([]string, []string) {
	t := newTokens(uint(N))
	deadline := 100 * time.Millisecond * scale
	settle := 15 * time.Millisecond * scale
	outs := make([]string, len(ops))
	pending := map[int]chan string{}
	var fails []string
	gets, rets, doneGets, doneRets := 0, 0, 0, 0
	fin := func(i int) {
		if ops[i] == 'g' {
			doneGets++
		} else if ops[i] == 'r' {
			doneRets++
		}
	}
	for k := 0; k < len(ops); k++ {
		var ch chan string
		switch ops[k] {
		case 'g':
			gets++
			ch = c16Async(func() string { t.get(); return "ok" })
		case 'r':
			rets++
			ch = c16Async(func() string { t.ret(); return "ok" })
		case 'c':
			ch = c16Async(func() string { return fmt.Sprintf("n%d", t.count()) })
		}
		select {
		case o := <-ch:
			outs[k] = o
			fin(k)
		case <-time.After(deadline):
			outs[k] = "blocked"
			pending[k] = ch
		}
		for len(pending) > 0 {
			time.Sleep(settle)
			progressed := false
			var idx []int
			for i := range pending {
				idx = append(idx, i)
			}
			sort.Ints(idx)
			for _, i := range idx {
				select {
				case o := <-pending[i]:
					if i == k {
						outs[i] = o
					} else {
						outs[i] = fmt.Sprintf("blocked>%d", k)
					}
					delete(pending, i)
					fin(i)
					progressed = true
				default:
				}
			}
			if !progressed {
				break
			}
		}
		// oracle: the counter is gets minus rets issued; with a capacity, slots taken and not given back <= N
		if c := t.count(); c != int64(gets-rets) {
			fails = append(fails, fmt.Sprintf("tokens-count-wrong|after op %d count=%d but %d gets and %d rets were issued", k, c, gets, rets))
		}
		if N > 0 && doneGets-doneRets > N {
			fails = append(fails, fmt.Sprintf("tokens-capacity-exceeded|after op %d: %d gets completed, %d rets completed, capacity %d", k, doneGets, doneRets, N))
		}
	}
	// unblock what is left
	go func() {
		for i := 0; i < len(ops)+2; i++ {
			select {
			case t.ch <- struct{}{}:
			case <-time.After(20 * time.Millisecond):
			}
			select {
			case <-t.ch:
			case <-time.After(20 * time.Millisecond):
			}
		}
	}()
	return outs, fails
}

type c16TokCase struct {
	N   int
	ops string
}

func c16GenTokens(r *vh.Run) []c16TokCase {
	rng := r.Rng
	type tc = c16TokCase
	var cases []tc
	cases = append(cases, tc{2, "cgcgcgcrcrcrc"}, tc{0, "ggrrrc"}, tc{1, "rgcgrc"}, tc{1, "gggcrrrrc"}, tc{3, "gggggcrrcrrrc"})
	for i := 0; i < r.N(120, 3000); i++ {
		N := []int{0, 1, 1, 2, 3, 8}[rng.Intn(6)]
		n := 2 + rng.Intn(12)
		b := make([]byte, n)
		bal := 0
		for j := range b {
			x := rng.Intn(10)
			switch {
			case x < 4:
				b[j] = 'g'
				bal++
			case x < 7 && (bal > 0 || rng.Intn(5) == 0):
				b[j] = 'r'
				bal--
			default:
				b[j] = 'c'
			}
		}
		cases = append(cases, tc{N, string(b)})
	}
	return cases
}

func c16Tokens(r *vh.Run, cases []c16TokCase) {
	emit := make([]func(), len(cases))
	var wg sync.WaitGroup
	work := make(chan int)
	for w := 0; w < 16; w++ {
		wg.Add(1)
		go func() {
			defer wg.Done()
			for i := range work {
				c := cases[i]
				line := fmt.Sprintf("c16 tokens %d %s", c.N, c.ops)
				model := r.Model(line)
				outs, fails := c16RunTokens(c.N, c.ops, 1)
				real := strings.Join(outs, ",")
				if real != model || len(fails) > 0 {
					outs, fails = c16RunTokens(c.N, c.ops, 4)
					real = strings.Join(outs, ",")
				}
				shape := "plain"
				if strings.Contains(real, "blocked") {
					shape = "blocked"
				}
				emit[i] = func() {
					r.Case(fmt.Sprintf("tokens/N=%d/%s", c.N, shape), line, true)
					r.Compare("tokens", line, real, model)
					for _, f := range fails {
						kv := strings.SplitN(f, "|", 2)
						r.OracleFail(kv[0], line, real, kv[1])
					}
				}
			}
		}()
	}
	for i := range cases {
		work <- i
	}
	close(work)
	wg.Wait()
	for _, f := range emit {
		f()
	}
}

// ---------------------------------------------------------------------------------------------
// pion client, scripted broker, relay listener

type c16Client struct {
	publicIP string // the address of the server-reflexive candidate added to the offer ("" = none)
	pc       *webrtc.PeerConnection
	dc       *webrtc.DataChannel
	offer    string
	opened   chan struct{}
	once     sync.Once
}

var c16ClientCount int64

// Clients differ in how they open their data channel (a proxy serves whatever WebRTC client the broker sends it):
// default options, unordered, partially reliable (retransmit limit / lifetime limit), a sub-protocol name.
func c16NewClient() (*c16Client, error) {
	return c16NewClientInit(false, int(atomic.AddInt64(&c16ClientCount, 1)%5))
}

func c16NewClientKind(negotiatedOnly bool) (*c16Client, error) {
	return c16NewClientInit(negotiatedOnly, 0)
}

// negotiated = true: the client's only data channel is pre-negotiated, so ICE and DTLS complete but no
// DATA_CHANNEL_OPEN is ever sent: the proxy's peer connection is connected and OnDataChannel never fires.
func c16NewClientInit(negotiatedOnly bool, variant int) (*c16Client, error) {
	s := webrtc.SettingEngine{}
	s.SetICEMulticastDNSMode(ice.MulticastDNSModeDisabled)
	pc, err := webrtc.NewAPI(webrtc.WithSettingEngine(s)).NewPeerConnection(webrtc.Configuration{})
	if err != nil {
		return nil, err
	}
	c := &c16Client{pc: pc, opened: make(chan struct{})}
	var init *webrtc.DataChannelInit
	if negotiatedOnly {
		yes, id := true, uint16(0)
		init = &webrtc.DataChannelInit{Negotiated: &yes, ID: &id}
	} else {
		no, zero, life, proto := false, uint16(0), uint16(100), "c16-proto"
		switch variant {
		case 1:
			init = &webrtc.DataChannelInit{Ordered: &no}
		case 2:
			init = &webrtc.DataChannelInit{MaxRetransmits: &zero}
		case 3:
			init = &webrtc.DataChannelInit{Ordered: &no, MaxPacketLifeTime: &life}
		case 4:
			init = &webrtc.DataChannelInit{Protocol: &proto}
		}
	}
	c.dc, err = pc.CreateDataChannel("c16", init)
	if err != nil {
		return nil, err
	}
	c.dc.OnOpen(func() { c.once.Do(func() { close(c.opened) }) })
	done := webrtc.GatheringCompletePromise(pc)
	o, err := pc.CreateOffer(nil)
	if err != nil {
		return nil, err
	}
	if err = pc.SetLocalDescription(o); err != nil {
		return nil, err
	}
	select {
	case <-done:
	case <-time.After(10 * time.Second):
		return nil, fmt.Errorf("ICE gathering did not complete")
	}
	// Two clients in three also list a server-reflexive candidate with a public address of their own (a client behind
	// a NAT): the proxy then knows a remote address for the client and passes it on to the relay as client_ip.
	sd := *pc.LocalDescription()
	if n := atomic.AddInt64(&c16PublicCount, 1); n%3 != 0 {
		if i := strings.Index(sd.SDP, "a=candidate:"); i >= 0 {
			c.publicIP = fmt.Sprintf("203.0.113.%d", 1+n%250)
			cand := fmt.Sprintf("a=candidate:4242 1 udp 1677729535 %s %d typ srflx raddr 0.0.0.0 rport 0\r\n", c.publicIP, 40000+n%20000)
			sd.SDP = sd.SDP[:i] + cand + sd.SDP[i:]
		}
	}
	if ip := remoteIPFromSDP(sd.SDP); ip != nil {
		c.publicIP = ip.String() // what the proxy will read out of this offer (also for offers without the added candidate)
	} else {
		c.publicIP = ""
	}
	c.offer, err = util.SerializeSessionDescription(&sd)
	return c, err
}

var c16PublicCount int64

func (c *c16Client) apply(answer string) error {
	sd, err := util.DeserializeSessionDescription(answer)
	if err != nil {
		return err
	}
	return c.pc.SetRemoteDescription(*sd)
}

type c16Plan struct {
	poll       string // "http500" | "garbage" | "status-error" | "nomatch-then-error" | "offer"
	offer      string
	relayURL   string
	answer     string        // "accept" | "refuse" | "http500"
	client     *c16Client    // applies the answer …
	applyAfter time.Duration // … this long after /answer (negative: never)
	onAnswer   func(at time.Time)
	onPoll     func(n int) // called after the n-th poll of this session was recorded, before it is answered

	mu       sync.Mutex
	polls    []int
	answered bool
}

type c16Broker struct {
	mu    sync.Mutex
	plans map[string]*c16Plan
	srv   *httptest.Server
}

func c16NewBroker() *c16Broker {
	b := &c16Broker{plans: map[string]*c16Plan{}}
	mux := http.NewServeMux()
	mux.HandleFunc("/proxy", func(w http.ResponseWriter, req *http.Request) {
		body, _ := io.ReadAll(req.Body)
		sid, _, _, clients, _, _, err := messages.DecodeProxyPollRequestWithRelayPrefix(body)
		if err != nil {
			w.WriteHeader(400)
			return
		}
		b.mu.Lock()
		p := b.plans[sid]
		b.mu.Unlock()
		if p == nil {
			w.WriteHeader(404)
			return
		}
		p.mu.Lock()
		p.polls = append(p.polls, clients)
		n := len(p.polls)
		p.mu.Unlock()
		if p.onPoll != nil {
			p.onPoll(n)
		}
		switch p.poll {
		case "http500":
			w.WriteHeader(500)
		case "garbage":
			w.Write([]byte("\x00\xff{not json"))
		case "status-error":
			out, _ := messages.EncodePollResponseWithRelayURL("", false, "", "", "incorrect relay pattern")
			w.Write(out)
		case "nomatch-then-error":
			if n == 1 {
				out, _ := messages.EncodePollResponse("", false, "")
				w.Write(out)
			} else {
				w.WriteHeader(500)
			}
		default:
			out, _ := messages.EncodePollResponseWithRelayURL(p.offer, true, "unknown", p.relayURL, "")
			w.Write(out)
		}
	})
	mux.HandleFunc("/answer", func(w http.ResponseWriter, req *http.Request) {
		body, _ := io.ReadAll(req.Body)
		ans, sid, err := messages.DecodeAnswerRequest(body)
		if err != nil {
			w.WriteHeader(400)
			return
		}
		b.mu.Lock()
		p := b.plans[sid]
		b.mu.Unlock()
		if p == nil {
			w.WriteHeader(404)
			return
		}
		p.mu.Lock()
		p.answered = true
		p.mu.Unlock()
		switch p.answer {
		case "refuse":
			out, _ := messages.EncodeAnswerResponse(false)
			w.Write(out)
		case "http500":
			w.WriteHeader(500)
		default:
			out, _ := messages.EncodeAnswerResponse(true)
			now := time.Now()
			if p.onAnswer != nil {
				p.onAnswer(now)
			}
			w.Write(out)
			if p.client != nil && p.applyAfter >= 0 {
				go func() {
					time.Sleep(time.Until(now.Add(p.applyAfter)))
					p.client.apply(ans)
				}()
			}
		}
	})
	b.srv = httptest.NewServer(mux)
	return b
}

func (b *c16Broker) add(sid string, p *c16Plan) {
	b.mu.Lock()
	b.plans[sid] = p
	b.mu.Unlock()
}

// relay listener: a WebSocket server that keeps connections until told to close them
type c16Relay struct {
	mu        sync.Mutex
	conns     map[string]*websocket.Conn // by URL path
	hits      []string
	clientIPs []string // the client_ip parameter of every connection, in order of arrival ("" = absent)
	srv       *httptest.Server
	stop      chan struct{} // closed at the end of the run: stalled connections are let go
}

func c16NewRelay() *c16Relay {
	rl := &c16Relay{conns: map[string]*websocket.Conn{}, stop: make(chan struct{})}
	up := websocket.Upgrader{CheckOrigin: func(*http.Request) bool { return true }}
	rl.srv = httptest.NewServer(http.HandlerFunc(func(w http.ResponseWriter, req *http.Request) {
		rl.mu.Lock()
		rl.hits = append(rl.hits, req.URL.Path)
		rl.clientIPs = append(rl.clientIPs, req.URL.Query().Get("client_ip"))
		rl.mu.Unlock()
		c, err := up.Upgrade(w, req, nil)
		if err != nil {
			return
		}
		rl.mu.Lock()
		rl.conns[req.URL.Path] = c
		rl.mu.Unlock()
		if strings.Contains(req.URL.Path, "stalled-relay") {
			// a relay that accepted the connection and then stopped: it reads nothing (so it never sees or answers a
			// Close frame) and does not close
			<-rl.stop
			c.Close()
			return
		}
		for {
			if _, _, err := c.ReadMessage(); err != nil {
				return
			}
		}
	}))
	return rl
}

func (rl *c16Relay) wsURL(path string) string {
	return "ws" + strings.TrimPrefix(rl.srv.URL, "http") + path
}

func (rl *c16Relay) closeConn(path string) bool {
	deadline := time.Now().Add(5 * time.Second)
	for time.Now().Before(deadline) {
		rl.mu.Lock()
		c := rl.conns[path]
		rl.mu.Unlock()
		if c != nil {
			c.Close()
			return true
		}
		time.Sleep(10 * time.Millisecond)
	}
	return false
}

func (rl *c16Relay) nHits() int {
	rl.mu.Lock()
	defer rl.mu.Unlock()
	return len(rl.hits)
}

// log writer: discards, counts, and can hold the OnDataChannel callback at its first statement
type c16LogGate struct {
	mu       sync.Mutex
	armed    bool
	until    time.Time
	stalled  int
	timedOut int
	slowEnd  time.Duration // when > 0: the "copy loop ended" line takes this long to write
}

func (g *c16LogGate) Write(p []byte) (int, error) {
	if bytes.Contains(p, []byte("copy loop ended")) {
		g.mu.Lock()
		d := g.slowEnd
		g.mu.Unlock()
		if d > 0 {
			time.Sleep(d)
		}
	}
	if bytes.Contains(p, []byte("OnDataChannel")) {
		g.mu.Lock()
		armed, until := g.armed, g.until
		if armed {
			g.armed = false
			g.stalled++
		}
		g.mu.Unlock()
		if armed {
			time.Sleep(time.Until(until))
		}
	}
	if bytes.Contains(p, []byte("Timed out waiting for client to open data channel")) {
		g.mu.Lock()
		g.timedOut++
		g.mu.Unlock()
	}
	return len(p), nil
}

type c16Env struct {
	blocked int // sessions whose tokens.get() or runSession did not return in time
	r       *vh.Run
	broker  *c16Broker
	relay   *c16Relay
	sf      *SnowflakeProxy
	gate    *c16LogGate
	pionOK  bool
}

func c16Setup(r *vh.Run) *c16Env {
	e := &c16Env{r: r, gate: &c16LogGate{}}
	log.SetOutput(e.gate)
	e.broker = c16NewBroker()
	e.relay = c16NewRelay()
	var err error
	broker, err = newSignalingServer(e.broker.srv.URL+"/", true)
	if err != nil {
		panic(err)
	}
	config = webrtc.Configuration{}
	e.sf = c16Proxy("$", true)
	return e
}

func c16Proxy(pattern string, allowNonTLS bool) *SnowflakeProxy {
	return &SnowflakeProxy{RelayURL: "ws://127.0.0.1:1/", RelayDomainNamePattern: pattern, AllowNonTLSRelay: allowNonTLS,
		ProxyType: "standalone", EventDispatcher: event.NewSnowflakeEventDispatcher(), shutdown: make(chan struct{}), KeepLocalAddresses: true}
}

// session runs tokens.get() and then the real runSession (the harness plays the poll loop).
// It returns when runSession has returned ("ok"), panicked, or the deadline passed ("blocked").
func (e *c16Env) session(sf *SnowflakeProxy, p *c16Plan, d time.Duration) (string, string) {
	sid := genSessionID()
	e.broker.add(sid, p)
	got := c16Async(func() string { tokens.get(); return "ok" })
	select {
	case <-got:
	case <-time.After(2 * time.Second):
		e.blocked++
		return sid, "get-blocked"
	}
	done := c16Async(func() string { sf.runSession(sid); return "ok" })
	select {
	case o := <-done:
		return sid, o
	case <-time.After(d):
		e.blocked++
		return sid, "blocked"
	}
}

const c16JunkOffer = `{"type":"offer","sdp":"v=0\r\nthis is not a session description\r\n"}`

// waitCount polls tokens.count() until it equals want or the deadline passes; then it keeps
// watching for `quiet` to catch a further change (a second release).
func c16WaitCount(want int64, d, quiet time.Duration) int64 {
	deadline := time.Now().Add(d)
	for time.Now().Before(deadline) && tokens.count() != want {
		time.Sleep(5 * time.Millisecond)
	}
	end := time.Now().Add(quiet)
	for time.Now().Before(end) {
		if tokens.count() != want {
			break
		}
		time.Sleep(5 * time.Millisecond)
	}
	return tokens.count()
}

// ---------------------------------------------------------------------------------------------
// B. sequences of sessions

// event kinds of the real script (the model event is the part before '/')
var c16Quick = []string{"f0/http500", "f0/garbage", "f0/status-error", "f0/undecodable", "f1/badurl", "f2/rejected", "f3/badsdp"}
var c16Pion = []string{"f4/refuse", "f4/http500", "d", "u"}

func c16GenEvents(rng *rand.Rand, N int, pion bool) []string {
	var evs []string
	n := 3 + rng.Intn(8)
	running := []int{} // sessions with a running handler
	sess := 0
	for len(evs) < n {
		x := rng.Intn(100)
		switch {
		case x < 12:
			evs = append(evs, "c")
		case x < 30 && len(running) > 0:
			j := rng.Intn(len(running))
			evs = append(evs, fmt.Sprintf("h%d", running[j]))
			running = append(running[:j], running[j+1:]...)
		default:
			if N > 0 && len(running) >= N {
				continue
			}
			k := c16Quick[rng.Intn(len(c16Quick))]
			if pion && rng.Intn(2) == 0 {
				k = c16Pion[rng.Intn(len(c16Pion))]
			}
			if k == "d" {
				running = append(running, sess)
			}
			evs = append(evs, k)
			sess++
		}
	}
	for _, j := range running {
		evs = append(evs, fmt.Sprintf("h%d", j))
	}
	return append(evs, "c")
}

func (e *c16Env) runEvents(N int, evs []string, tag string) {
	r := e.r
	tokens = newTokens(uint(N))
	var outs, mevs []string
	var fails [][2]string
	sess := 0
	paths := map[int]string{}
	clients := []*c16Client{}
	inUse := 0 // sessions that hold a slot according to the script
	var drift int64
	hitsBefore := e.relay.nHits()
	aborted := false
	for _, ev := range evs {
		if aborted {
			break
		}
		mev := strings.SplitN(ev, "/", 2)[0]
		mevs = append(mevs, mev)
		switch {
		case ev == "c":
			outs = append(outs, fmt.Sprint(tokens.count()))
		case ev[0] == 'h':
			var j int
			fmt.Sscanf(ev[1:], "%d", &j)
			before := tokens.count()
			if !e.relay.closeConn(paths[j]) {
				r.Note("events: relay connection of session %d never arrived", j)
			}
			inUse--
			outs = append(outs, fmt.Sprint(c16WaitCount(before-1, 3*time.Second, 60*time.Millisecond)))
		default:
			p := &c16Plan{poll: "offer", offer: c16JunkOffer, answer: "accept", applyAfter: -1}
			switch ev {
			case "f0/http500":
				p.poll = "http500"
			case "f0/garbage":
				p.poll = "garbage"
			case "f0/status-error":
				p.poll = "status-error"
			case "f0/undecodable":
				p.offer = "][ not json"
			case "f1/badurl":
				p.relayURL = "ws://[::1/unclosed"
			case "f2/rejected":
				p.relayURL = "wss://relay.outside.example/"
			case "f3/badsdp":
			default:
				c, err := c16NewClient()
				if err != nil {
					r.Note("events: client: %v", err)
					return
				}
				clients = append(clients, c)
				p.offer, p.client = c.offer, c
				switch ev {
				case "f4/refuse":
					p.answer = "refuse"
				case "f4/http500":
					p.answer = "http500"
				case "d":
					p.applyAfter = 0
					paths[sess] = fmt.Sprintf("/%s-%d", tag, sess)
					p.relayURL = e.relay.wsURL(paths[sess])
				case "u":
					p.applyAfter = 0
					p.relayURL = "ws://127.0.0.1:1/"
				}
			}
			sf := e.sf
			if ev == "f2/rejected" {
				sf = c16Proxy("^relay.inside.example$", false)
			}
			before := tokens.count()
			_, o := e.session(sf, p, 8*time.Second)
			var cnt int64
			switch ev {
			case "d":
				inUse++
				cnt = c16WaitCount(before+1, time.Second, 60*time.Millisecond)
			case "u":
				// the handler goroutine releases after the failed dial
				cnt = c16WaitCount(before, 3*time.Second, 60*time.Millisecond)
			default:
				// exits without a handler release before runSession returns
				time.Sleep(5 * time.Millisecond)
				cnt = tokens.count()
			}
			p.mu.Lock()
			sent := "?"
			if len(p.polls) > 0 {
				sent = fmt.Sprint(p.polls[0])
			}
			for _, v := range p.polls {
				if v%8 != 0 || int64(v) > before+1 {
					fails = append(fails, [2]string{"load-not-multiple-of-8-or-above-in-use", fmt.Sprintf("poll of session %d reported Clients=%d with %d slots in use", sess, v, before+1)})
				}
			}
			p.mu.Unlock()
			if o != "ok" {
				sent = o
				fails = append(fails, [2]string{"run-session-" + o, fmt.Sprintf("runSession of session %d (%s): %s", sess, ev, o)})
			}
			outs = append(outs, fmt.Sprintf("%s/%d", sent, cnt))
			sess++
			if o != "ok" {
				aborted = true
			}
		}
		// the counter must be the number of sessions holding a slot; only the event at which it goes
		// off is reported (drift), not every later one
		if c := tokens.count(); c != int64(inUse)+drift && ev != "c" {
			key := "slot-leaked"
			if c < int64(inUse)+drift {
				key = "slot-released-twice"
			}
			exit := strings.SplitN(ev, "/", 2)[0]
			if exit[0] == 'h' {
				exit = "h"
			}
			fails = append(fails, [2]string{key + "/" + exit, fmt.Sprintf("after event %q the counter is %d but %d sessions hold a slot", ev, c, int64(inUse)+drift)})
			drift = c - int64(inUse)
		}
		if N > 0 && int64(len(tokens.ch)) != int64(inUse)+drift {
			fails = append(fails, [2]string{"token-channel-out-of-step", fmt.Sprintf("after event %q the token channel holds %d tokens but %d sessions hold a slot", ev, len(tokens.ch), int64(inUse)+drift)})
		}
	}
	for _, c := range clients {
		c.pc.Close()
	}
	line := fmt.Sprintf("c16 events 1 %d %s", N, strings.Join(mevs, ","))
	caseLine := fmt.Sprintf("%s  [real events: %s]", line, strings.Join(evs, ","))
	real := strings.Join(outs, ",")
	r.Case(fmt.Sprintf("events/%s/N=%d", tag, N), caseLine, true)
	for _, ev := range evs {
		if ev != "c" && ev[0] != 'h' {
			r.Case("exit/"+ev, caseLine, true)
		}
	}
	r.Compare("events", caseLine, real, r.Model(line))
	seen := map[string]bool{}
	for _, f := range fails {
		if !seen[f[0]] {
			seen[f[0]] = true
			r.OracleFail(f[0], caseLine, real, f[1])
		}
	}
	_ = hitsBefore
}

// capacity is really limiting: with N slots taken by connected sessions the next get blocks, the
// counter is N+1 meanwhile and no poll is sent; it proceeds as soon as a handler ends.
func (e *c16Env) capacityFull(N int) {
	r := e.r
	tokens = newTokens(uint(N))
	var labs []string
	var clients []*c16Client
	for i := 0; i < N; i++ {
		c, err := c16NewClient()
		if err != nil {
			r.Note("capacity: client: %v", err)
			return
		}
		clients = append(clients, c)
		path := fmt.Sprintf("/cap%d-%d", N, i)
		p := &c16Plan{poll: "offer", offer: c.offer, client: c, answer: "accept", applyAfter: 0, relayURL: e.relay.wsURL(path)}
		e.session(e.sf, p, 15*time.Second)
		labs = append(labs, fmt.Sprintf("lStart:%d,lAcquire:%d,lPoll:%d,lOk:%d,lOk:%d,lOk:%d,lOk:%d,lOk:%d,cbFire:%d,lData:%d", i, i, i, i, i, i, i, i, i, i))
	}
	c16WaitCount(int64(N), 3*time.Second, 0)
	got := c16Async(func() string { tokens.get(); return "ok" })
	var o string
	select {
	case o = <-got:
	case <-time.After(300 * time.Millisecond):
		o = "blocked"
	}
	during := tokens.count()
	e.relay.closeConn(fmt.Sprintf("/cap%d-0", N))
	var o2 string
	select {
	case o2 = <-got:
	case <-time.After(5 * time.Second):
		o2 = "blocked"
	}
	if o != "blocked" {
		o2 = o
	}
	after := c16WaitCount(int64(N), 2*time.Second, 60*time.Millisecond)
	real := fmt.Sprintf("get=%s countDuring=%d afterHandlerEnd=%s count=%d ch=%d", o, during, o2, after, len(tokens.ch))
	pre := strings.Join(labs, ",")
	m1 := e.r.Model(fmt.Sprintf("c16 sched 1 %d %s,lStart:%d,lAcquire:%d", N, pre, N, N))
	m2 := e.r.Model(fmt.Sprintf("c16 sched 1 %d %s,lStart:%d", N, pre, N))
	m3 := e.r.Model(fmt.Sprintf("c16 sched 1 %d %s,lStart:%d,hEnd:0,hRelease:0,lAcquire:%d", N, pre, N, N))
	mget := "ok"
	if strings.HasPrefix(m1, "disabled@") {
		mget = "blocked"
	}
	field := func(s, k string) string {
		for _, t := range strings.Fields(s) {
			if strings.HasPrefix(t, k+"=") {
				return t[len(k)+1:]
			}
		}
		return "?"
	}
	m3get := "ok"
	if strings.HasPrefix(m3, "disabled@") {
		m3get = "blocked"
	}
	model := fmt.Sprintf("get=%s countDuring=%s afterHandlerEnd=%s count=%s ch=%s", mget, field(m2, "count"), m3get, field(m3, "count"), field(m3, "ch"))
	line := fmt.Sprintf("c16 sched 1 %d %s,lStart:%d,hEnd:0,hRelease:0,lAcquire:%d", N, pre, N, N)
	r.Case(fmt.Sprintf("capacity-full/N=%d", N), line, true)
	r.Compare("capacity-full", line, real, model)
	if o != "blocked" {
		r.OracleFail("capacity-exceeded", line, real, fmt.Sprintf("with %d connected sessions and capacity %d a further tokens.get() did not block", N, N))
	}
	for _, c := range clients {
		c.pc.Close()
	}
	for i := 1; i < N; i++ {
		e.relay.closeConn(fmt.Sprintf("/cap%d-%d", N, i))
	}
	// every handler of this phase must be over before the next phase replaces the global tokens
	c16WaitCount(1, 5*time.Second, 0)
	tokens.ret()
}

// ---------------------------------------------------------------------------------------------
// C. data channel timeout (20 s), in parallel; the forced F11 schedule

func (e *c16Env) timeouts(M int) {
	r := e.r
	N := M + 4
	tokens = newTokens(uint(N))
	type sres struct {
		sid, out string
		p        *c16Plan
	}
	var wg, wgPlain sync.WaitGroup
	res := make([]sres, M+2)
	start := func(i int, p *c16Plan) {
		wg.Add(1)
		if i <= M {
			wgPlain.Add(1)
		}
		go func() {
			defer wg.Done()
			if i <= M {
				defer wgPlain.Done()
			}
			sid, o := e.session(e.sf, p, dataChannelTimeout+15*time.Second)
			res[i] = sres{sid, o, p}
		}()
	}
	var clients []*c16Client
	t0 := time.Now()
	for i := 0; i < M; i++ {
		c, err := c16NewClientKind(i%2 == 1)
		if err != nil {
			r.Note("timeouts: client: %v", err)
			return
		}
		clients = append(clients, c)
		if i%2 == 1 {
			// the client connects (ICE + DTLS + SCTP) but never opens a data channel
			start(i, &c16Plan{poll: "offer", offer: c.offer, client: c, answer: "accept", applyAfter: 0})
			continue
		}
		// the client never applies the answer
		start(i, &c16Plan{poll: "offer", offer: c.offer, client: c, answer: "accept", applyAfter: -1})
	}
	// a session that is told "no match" and polls again 5 s later (then fails): still one slot, one release
	start(M, &c16Plan{poll: "nomatch-then-error"})
	// the forced F11 session starts a little later so that its effect on the counter is seen in isolation
	time.Sleep(1500 * time.Millisecond)
	fc, err := c16NewClient()
	if err != nil {
		r.Note("timeouts: client: %v", err)
		return
	}
	clients = append(clients, fc)
	fp := &c16Plan{poll: "offer", offer: fc.offer, client: fc, answer: "accept", applyAfter: dataChannelTimeout - 700*time.Millisecond, relayURL: "ws://127.0.0.1:1/"}
	var answerAt time.Time
	fp.onAnswer = func(at time.Time) {
		answerAt = at
		e.gate.mu.Lock()
		e.gate.armed = true
		e.gate.until = at.Add(dataChannelTimeout + 80*time.Millisecond)
		e.gate.mu.Unlock()
	}
	start(M+1, fp)
	// when the M plain sessions and the no-match session are over only the forced session holds a slot
	wgPlain.Wait()
	mid := c16WaitCount(1, time.Second, 50*time.Millisecond)
	_ = t0
	wg.Wait()
	final := c16WaitCount(0, 3*time.Second, 500*time.Millisecond)
	e.gate.mu.Lock()
	stalled, timedOut := e.gate.stalled, e.gate.timedOut
	e.gate.armed = false
	e.gate.mu.Unlock()
	outs := ""
	for i := range res {
		outs += res[i].out + ","
	}
	pollsNM := fmt.Sprint(res[M].p.polls)
	real := fmt.Sprintf("afterPlainTimeouts=%d final=%d", mid, final)
	// model: the same sessions one after the other; only the end state is compared
	var mevs []string
	for i := 0; i < M; i++ {
		mevs = append(mevs, "t")
	}
	mline := fmt.Sprintf("c16 events 1 %d %s,f0,x,c", N, strings.Join(mevs, ","))
	mout := strings.Split(r.Model(mline), ",")
	model := fmt.Sprintf("afterPlainTimeouts=1 final=%s", mout[len(mout)-1])
	caseLine := fmt.Sprintf("%s  [%d sessions whose client never opens the data channel in parallel (every second one connects with a pre-negotiated channel only, the others never apply the answer); one session polled twice (no match, then error): Clients=%s; one session with the client applying the answer %v after /answer and the OnDataChannel callback held until %v after /answer (callback held: %d, timeout arms taken: %d); runSession outcomes %s]",
		mline, M, pollsNM, dataChannelTimeout-700*time.Millisecond, dataChannelTimeout+80*time.Millisecond, stalled, timedOut, outs)
	r.Case(fmt.Sprintf("timeouts/M=%d/forced-f11-callback-held=%d", M, stalled), caseLine, true)
	r.Case("exit/t", caseLine, true)
	r.Case("exit/f0/nomatch-then-error", caseLine, true)
	if stalled > 0 {
		r.Case("exit/x/timeout-arm-while-callback-runs", caseLine, true)
	} else {
		r.Skip("forced F11 schedule: the OnDataChannel callback did not arrive in time to be held (client could not connect?)")
	}
	_ = answerAt
	r.Compare("timeouts", caseLine, real, model)
	if mid != 1 {
		key := "slot-leaked/timeout"
		if mid < 1 {
			key = "slot-released-twice/timeout"
		}
		r.OracleFail(key, caseLine, real, fmt.Sprintf("after %d plain timeouts the counter is %d, exactly the forced session should still hold a slot", M, mid))
	}
	if final < 0 {
		r.OracleFail("slot-released-twice-at-datachannel-timeout", caseLine, real,
			fmt.Sprintf("the session whose data channel opened while the 20 s timeout arm was being taken released its slot twice: tokens.count() = %d (token channel %d)", final, len(tokens.ch)))
	} else if final > 0 {
		r.OracleFail("slot-leaked/timeout", caseLine, real, fmt.Sprintf("tokens.count() = %d after all sessions were over", final))
	}
	for _, c := range clients {
		c.pc.Close()
	}
}

// stalledDownloader: a connected client stops reading in the middle of a relay-to-client bulk transfer and then
// goes away without draining what is queued for it.  The handler must still end and return the slot.
// streamingWhileClientLeaves: the relay keeps pushing small messages while the client closes its peer
// connection, so that webRTCConn.Write keeps being called while (and after) the data channel's OnClose
// handler runs; the log line copyLoop writes before it closes both ends is slowed down to keep that window
// open for a few milliseconds. The slot must come back; under the race detector this is the workload for
// webRTCConn's data channel pointer.
func (e *c16Env) streamingWhileClientLeaves(round int) {
	r := e.r
	tokens = newTokens(2)
	c, err := c16NewClient()
	if err != nil {
		r.Note("streaming relay: client: %v", err)
		return
	}
	var got int64
	c.dc.OnMessage(func(m webrtc.DataChannelMessage) { atomic.AddInt64(&got, int64(len(m.Data))) })
	path := fmt.Sprintf("/streaming-relay-%d", round)
	p := &c16Plan{poll: "offer", offer: c.offer, client: c, answer: "accept", applyAfter: 0, relayURL: e.relay.wsURL(path)}
	_, o := e.session(e.sf, p, 15*time.Second)
	line := "c16 events 1 2 d  [relay streams 1 KiB messages without pause; the client closes its peer connection in mid-stream]"
	r.Case("exit/d/client-leaves-in-mid-stream", fmt.Sprintf("%s round %d", line, round), true)
	if o != "ok" {
		r.OracleFail("run-session-"+o, line, o, "runSession did not return")
		return
	}
	var ws *websocket.Conn
	for i := 0; i < 500 && ws == nil; i++ {
		e.relay.mu.Lock()
		ws = e.relay.conns[path]
		e.relay.mu.Unlock()
		if ws == nil {
			time.Sleep(10 * time.Millisecond)
		}
	}
	if ws == nil {
		r.Note("streaming relay: the proxy never dialed the relay (client could not connect?)")
		c.pc.Close()
		c16WaitCount(0, 5*time.Second, 0)
		return
	}
	e.gate.mu.Lock()
	e.gate.slowEnd = 30 * time.Millisecond
	e.gate.mu.Unlock()
	stop := make(chan struct{})
	pushed := make(chan int, 1)
	go func() {
		buf := make([]byte, 1024)
		n := 0
		for {
			select {
			case <-stop:
				pushed <- n
				return
			default:
			}
			ws.SetWriteDeadline(time.Now().Add(5 * time.Second))
			if ws.WriteMessage(websocket.BinaryMessage, buf) != nil {
				pushed <- n
				return
			}
			n += len(buf)
			if n%(64<<10) == 0 {
				time.Sleep(time.Millisecond) // about 64 MiB/s at most
			}
		}
	}()
	time.Sleep(300 * time.Millisecond)
	c.pc.Close()
	after := c16WaitCount(0, 20*time.Second, 200*time.Millisecond)
	close(stop)
	n := 0
	select {
	case n = <-pushed:
	case <-time.After(8 * time.Second):
	}
	ws.Close()
	e.gate.mu.Lock()
	e.gate.slowEnd = 0
	e.gate.mu.Unlock()
	if after != 0 {
		r.OracleFail("slot-leaked/client-leaves-in-mid-stream", line, fmt.Sprintf("slots in use 20 s after the client left: %d (relay pushed %d bytes, client read %d)", after, n, atomic.LoadInt64(&got)),
			"when the client goes away the data channel handler must end and release its slot while the relay is still sending")
	}
}

// legacyRelaySessions: a broker that does not name a relay (older broker): the proxy falls back to its own -relay
// URL. Three clients are served at the same time; each handler dials the relay with its own client_ip parameter.
func (e *c16Env) legacyRelaySessions() {
	r := e.r
	tokens = newTokens(4)
	sf := c16Proxy("$", true)
	sf.RelayURL = e.relay.wsURL("/own-relay")
	before := e.relay.nHits()
	var clients []*c16Client
	line := "c16 events 3 4 d d d  [the broker names no relay URL: three overlapping sessions use the proxy's own relay URL]"
	for i := 0; i < 3; i++ {
		c, err := c16NewClient()
		if err != nil {
			r.Note("legacy relay sessions: client: %v", err)
			break
		}
		clients = append(clients, c)
		p := &c16Plan{poll: "offer", offer: c.offer, client: c, answer: "accept", applyAfter: 0, relayURL: ""}
		if _, o := e.session(sf, p, 15*time.Second); o != "ok" {
			r.OracleFail("run-session-"+o, line, o, "runSession did not return")
			break
		}
	}
	deadline := time.Now().Add(10 * time.Second)
	for e.relay.nHits()-before < len(clients) && time.Now().Before(deadline) {
		time.Sleep(20 * time.Millisecond)
	}
	r.Case("exit/d/own-relay-url-three-at-once", fmt.Sprintf("%s -> %d relay connections", line, e.relay.nHits()-before), true)
	// each relay connection names the address of one of these clients, and no address twice
	e.relay.mu.Lock()
	told := append([]string(nil), e.relay.clientIPs[before:]...)
	e.relay.mu.Unlock()
	var want []string
	for _, c := range clients {
		want = append(want, c.publicIP)
	}
	sort.Strings(told)
	sort.Strings(want)
	if len(told) == len(want) && strings.Join(told, ",") != strings.Join(want, ",") {
		r.OracleFail("relay-told-another-clients-address", line, fmt.Sprintf("client_ip parameters %q, the clients' addresses %q", told, want),
			"the relay connection of a session carries the address of that session's client (or none)")
	}
	for _, c := range clients {
		select {
		case <-c.opened:
			c.dc.Send(make([]byte, 512))
		default:
		}
	}
	time.Sleep(200 * time.Millisecond)
	for _, c := range clients {
		c.pc.Close()
	}
	if after := c16WaitCount(0, 20*time.Second, 200*time.Millisecond); after != 0 {
		r.OracleFail("slot-leaked/own-relay", line, fmt.Sprintf("slots in use 20 s after the clients left: %d", after), "every session gives its slot back")
	}
}

// stalledRelay: the relay accepted the proxy's connection and then stopped reading and never closes; the client uses
// the session for a moment and leaves. The handler must end (closing the relay connection cannot wait for the
// relay's cooperation) and the slot must come back.
func (e *c16Env) stalledRelay() {
	r := e.r
	tokens = newTokens(2)
	c, err := c16NewClient()
	if err != nil {
		r.Note("stalled relay: client: %v", err)
		return
	}
	path := "/stalled-relay"
	p := &c16Plan{poll: "offer", offer: c.offer, client: c, answer: "accept", applyAfter: 0, relayURL: e.relay.wsURL(path)}
	_, o := e.session(e.sf, p, 15*time.Second)
	line := "c16 events 1 2 d  [the relay accepts the connection, then reads nothing and never closes; the client sends 10 KiB and closes its peer connection]"
	r.Case("exit/d/relay-stalled-client-leaves", line, true)
	if o != "ok" {
		r.OracleFail("run-session-"+o, line, o, "runSession did not return")
		return
	}
	select {
	case <-c.opened:
		for i := 0; i < 10; i++ {
			c.dc.Send(make([]byte, 1024))
		}
	case <-time.After(10 * time.Second):
		r.Note("stalled relay: the client's data channel did not open")
	}
	time.Sleep(500 * time.Millisecond)
	c.pc.Close()
	if after := c16WaitCount(0, 20*time.Second, 200*time.Millisecond); after != 0 {
		r.OracleFail("slot-leaked/relay-stalled", line, fmt.Sprintf("slots in use 20 s after the client left: %d", after),
			"when the client goes away the data channel handler must end and release its slot, whether or not the relay still responds")
	}
}

func (e *c16Env) stalledDownloader() {
	r := e.r
	tokens = newTokens(2)
	c, err := c16NewClient()
	if err != nil {
		r.Note("stalled downloader: client: %v", err)
		return
	}
	block := make(chan struct{})
	var got int64
	c.dc.OnMessage(func(m webrtc.DataChannelMessage) {
		if atomic.AddInt64(&got, int64(len(m.Data))) > 64<<10 {
			<-block // the client application stops reading
		}
	})
	path := "/stalled-downloader"
	p := &c16Plan{poll: "offer", offer: c.offer, client: c, answer: "accept", applyAfter: 0, relayURL: e.relay.wsURL(path)}
	_, o := e.session(e.sf, p, 15*time.Second)
	line := "c16 events 1 2 d  [relay pushes 6 MiB to a connected client whose OnMessage blocks after 64 KiB; the client then closes its peer connection]"
	r.Case("exit/d/stalled-downloader-leaves", line, true)
	if o != "ok" {
		r.OracleFail("run-session-"+o, line, o, "runSession did not return")
		close(block)
		return
	}
	// wait for the relay connection, then push
	var ws *websocket.Conn
	for i := 0; i < 500 && ws == nil; i++ {
		e.relay.mu.Lock()
		ws = e.relay.conns[path]
		e.relay.mu.Unlock()
		if ws == nil {
			time.Sleep(10 * time.Millisecond)
		}
	}
	if ws == nil {
		r.Note("stalled downloader: the proxy never dialed the relay (client could not connect?)")
		close(block)
		c.pc.Close()
		c16WaitCount(0, 5*time.Second, 0)
		return
	}
	pushed := make(chan int, 1)
	go func() {
		buf := make([]byte, 16<<10)
		n := 0
		for n < 6<<20 {
			ws.SetWriteDeadline(time.Now().Add(10 * time.Second))
			if ws.WriteMessage(websocket.BinaryMessage, buf) != nil {
				break
			}
			n += len(buf)
		}
		pushed <- n
	}()
	time.Sleep(1500 * time.Millisecond)
	during := tokens.count()
	c.pc.Close() // the client goes away; its queue is never drained
	close(block)
	after := c16WaitCount(0, 20*time.Second, 200*time.Millisecond)
	ws.Close()
	n := 0
	select {
	case n = <-pushed:
	case <-time.After(12 * time.Second):
	}
	real := fmt.Sprintf("slots in use during the transfer %d, 20 s after the client left %d (relay pushed %d bytes, client read %d)", during, after, n, atomic.LoadInt64(&got))
	if after != 0 {
		r.OracleFail("slot-leaked/stalled-downloader", line, real, "when the client goes away the data channel handler must end and release its slot, whatever was still queued for the client")
	}
}

// repolled: a session that is told "no match" polls again pollInterval later; the load it reports must
// be read again for every poll.  Nine other sessions hold a slot when the first poll is sent (reported
// load 8) and are over before the second one (reported load must be 0: one slot in use).
func (e *c16Env) repolled() {
	r := e.r
	tokens = newTokens(16)
	const others = 9
	for i := 0; i < others; i++ {
		tokens.get()
	}
	var inUse []int64
	p := &c16Plan{poll: "nomatch-then-error"}
	p.onPoll = func(n int) {
		inUse = append(inUse, tokens.count())
		if n == 1 {
			for i := 0; i < others; i++ {
				tokens.ret()
			}
		}
	}
	_, o := e.session(e.sf, p, pollInterval+15*time.Second)
	p.mu.Lock()
	polls := append([]int{}, p.polls...)
	p.mu.Unlock()
	line := fmt.Sprintf("c16 load  [session polled %d times (no match, then error); slots in use at the polls: %v; runSession: %s]", len(polls), inUse, o)
	var want []string
	for _, c := range inUse {
		want = append(want, r.Model(fmt.Sprintf("c16 load %d", c)))
	}
	r.Case("load/re-poll-after-sessions-ended", line, true)
	r.Compare("load-per-poll", line, fmt.Sprint(polls), "["+strings.Join(want, " ")+"]")
	for i, v := range polls {
		if i < len(inUse) && (v%8 != 0 || int64(v) > inUse[i]) {
			r.OracleFail("load-not-multiple-of-8-or-above-in-use", line, fmt.Sprint(polls),
				fmt.Sprintf("poll %d reported Clients=%d with %d slots in use", i+1, v, inUse[i]))
		}
	}
	if o != "ok" {
		r.OracleFail("run-session-"+o, line, o, "runSession of the re-polling session did not return")
	}
	c16WaitCount(0, 2*time.Second, 0)
}

// ---------------------------------------------------------------------------------------------
// D. C06, proxy side: relay URLs from the broker

type c16URLCase struct {
	kind, pattern string
	allow         bool
	url           string
}

func (e *c16Env) c06Cases(decoy string) []c16URLCase {
	rng := e.r.Rng
	dhost := strings.TrimPrefix(decoy, "http://") // 127.0.0.1:port
	dport := dhost[strings.LastIndex(dhost, ":")+1:]
	in := "snowflake.torproject.net"
	pats := []string{"snowflake.torproject.net$", "^snowflake.torproject.net$", "torproject.net$", "^relay.example$", "127.0.0.1$", "$"}
	var out []c16URLCase
	add := func(kind, pat string, allow bool, u string) { out = append(out, c16URLCase{kind, pat, allow, u}) }
	for _, pat := range pats {
		for _, allow := range []bool{false, true} {
			add("inside-wss", pat, allow, "wss://"+in+"/")
			add("inside-ws", pat, allow, "ws://"+in+"/")
			add("outside", pat, allow, "wss://evil.example/")
			add("outside-decoy", pat, allow, "ws://"+dhost+"/decoy")
			add("userinfo", pat, allow, "wss://"+in+"@"+dhost+"/decoy")
			add("userinfo-pw", pat, allow, "ws://"+in+":x@"+dhost+"/decoy")
			add("suffix-trick", pat, allow, "wss://evil"+in+"/")
			add("prefix-trick", pat, allow, "wss://"+in+".evil.example/")
			add("port", pat, allow, "wss://"+in+":8443/")
			add("port-decoy", pat, allow, "ws://127.0.0.1:"+dport+"/decoy")
			add("uppercase", pat, allow, "wss://SNOWFLAKE.TORPROJECT.NET/")
			add("uppercase-scheme", pat, allow, "WSS://"+in+"/")
			add("opaque", pat, allow, "wss:"+in)
			add("no-scheme", pat, allow, "//"+in+"/")
			add("path-only", pat, allow, "/"+in)
			add("http", pat, allow, "https://"+in+"/")
			add("fragment", pat, allow, "ws://"+dhost+"/#@"+in)
			add("query", pat, allow, "ws://"+dhost+"/?x=."+in)
			add("backslash", pat, allow, "ws://"+dhost+"\\@"+in+"/")
			add("trailing-dot", pat, allow, "wss://"+in+"./")
			add("ipv6", pat, allow, "wss://[::1]:"+dport+"/")
			add("empty", pat, allow, "")
			add("badurl", pat, allow, "ws://[::1/unclosed")
			add("space", pat, allow, "wss://"+in+" /")
		}
	}
	rng.Shuffle(len(out), func(i, j int) { out[i], out[j] = out[j], out[i] })
	n := e.r.N(110, len(out))
	if n > len(out) {
		n = len(out)
	}
	out = out[:n]
	// histories on one long-lived proxy (all cases with the same pattern and flag share one SnowflakeProxy, as in
	// the real process): a relay accepted over TLS, then the same host without TLS, with another port, in another
	// letter case, as userinfo of a decoy — every decision must be the one for that URL alone
	for _, pat := range []string{"snowflake.torproject.net$", "torproject.net$", "$"} {
		add("history/inside-wss", pat, false, "wss://"+in+"/")
		add("history/same-host-ws", pat, false, "ws://"+in+"/")
		add("history/inside-wss-port", pat, false, "wss://"+in+":443/")
		add("history/same-hostport-ws", pat, false, "ws://"+in+":443/")
		add("history/same-host-userinfo-decoy", pat, false, "ws://"+in+"@"+dhost+"/decoy")
		add("history/inside-wss", pat, false, "wss://"+in+"/x")
		add("history/same-host-http", pat, false, "http://"+in+"/")
	}
	return out
}

func c16IndependentMember(pattern, host string) bool {
	// independent restatement of the matcher: optional leading ^ = exact, trailing $ dropped, else suffix
	p := strings.TrimSuffix(pattern, "$")
	if strings.HasPrefix(p, "^") {
		return host == p[1:]
	}
	return len(host) >= len(p) && host[len(host)-len(p):] == p
}

func (e *c16Env) c06(pionOK bool) {
	r := e.r
	var dmu sync.Mutex
	decoyHits := 0
	decoy := httptest.NewServer(http.HandlerFunc(func(w http.ResponseWriter, req *http.Request) {
		dmu.Lock()
		decoyHits++
		dmu.Unlock()
		w.WriteHeader(404)
	}))
	defer decoy.Close()
	// also count raw TCP connections to a second decoy port (for URLs the websocket dialer would reach without HTTP)
	ln, _ := net.Listen("tcp", "127.0.0.1:0")
	if ln != nil {
		defer ln.Close()
	}
	tokens = newTokens(0)
	cases := e.c06Cases(decoy.URL)
	var client *c16Client
	leakReported := false
	proxies := map[string]*SnowflakeProxy{} // one long-lived proxy per (pattern, flag)
	for i, c := range cases {
		if e.blocked >= 3 {
			break
		}
		// a real offer (so that an accepted URL really reaches /answer) when pion works, a junk one otherwise
		offer := c16JunkOffer
		if pionOK {
			if client == nil || i%8 == 0 {
				if client != nil {
					client.pc.Close()
				}
				var err error
				client, err = c16NewClient()
				if err != nil {
					pionOK = false
				}
			}
			if pionOK {
				offer = client.offer
			}
		}
		p := &c16Plan{poll: "offer", offer: offer, relayURL: c.url, answer: "refuse", applyAfter: -1}
		sfKey := fmt.Sprintf("%s|%v", c.pattern, c.allow)
		sf := proxies[sfKey]
		if sf == nil {
			sf = c16Proxy(c.pattern, c.allow)
			proxies[sfKey] = sf
		}
		before := tokens.count()
		dmu.Lock()
		hitsBefore := decoyHits
		dmu.Unlock()
		_, o := e.session(sf, p, 15*time.Second)
		time.Sleep(2 * time.Millisecond)
		cnt := tokens.count()
		p.mu.Lock()
		answered := p.answered
		p.mu.Unlock()
		dmu.Lock()
		dialed := decoyHits != hitsBefore
		dmu.Unlock()
		// what Go's url.Parse says about the URL is the input of the model
		u, perr := url.Parse(c.url)
		real := "reject"
		if answered {
			real = "accept"
		}
		if !pionOK && !answered && perr == nil {
			// with a junk offer an accepted URL ends in makePeerConnectionFromOffer, not in /answer:
			// acceptance is then not observable; only rejections of the oracle below are checked
			real = "unobservable"
		}
		allow := "0"
		if c.allow {
			allow = "1"
		}
		var model, line string
		if perr != nil {
			line = fmt.Sprintf("c06 proxy - 0 %s -", allow)
			model = "reject" // url.Parse failed: runSession returns before the pattern check
		} else {
			mem := r.Model(fmt.Sprintf("c06 mem %s %s", vh.Hex([]byte(c.pattern)), vh.Hex([]byte(u.Hostname()))))
			m := "0"
			if mem == "true" {
				m = "1"
			}
			line = fmt.Sprintf("c06 proxy %s %s %s %s", vh.Hex([]byte(c.url)), m, allow, vh.Hex([]byte(u.Scheme)))
			model = r.Model(line)
		}
		caseLine := fmt.Sprintf("%s  [relayURL=%q pattern=%q allowNonTLS=%v]", line, c.url, c.pattern, c.allow)
		r.Case(fmt.Sprintf("c06-relay-url/%s/%s", c.kind, model), caseLine, true)
		if real != "unobservable" {
			r.Compare("c06-relay-url", caseLine, real, model)
		}
		// oracle, independent of the model: outside the pattern, or not wss without the flag => no /answer, no dial
		if c.url != "" && perr == nil {
			outside := !c16IndependentMember(c.pattern, u.Hostname()) || (!c.allow && u.Scheme != "wss")
			if outside && (answered || dialed) {
				r.OracleFail("proxy-accepted-relay-outside-pattern", caseLine, fmt.Sprintf("answered=%v dialedDecoy=%v", answered, dialed),
					"the proxy went on with an offer whose relay URL is outside its accepted pattern (or is not wss without -allow-non-tls-relay)")
			}
		}
		if perr != nil && (answered || dialed) {
			r.OracleFail("proxy-accepted-unparsable-relay-url", caseLine, fmt.Sprintf("answered=%v dialedDecoy=%v", answered, dialed), "the proxy went on with an unparsable relay URL")
		}
		if (o != "ok" || cnt != before) && !leakReported {
			leakReported = true
			r.OracleFail("slot-leaked/relay-url", caseLine, fmt.Sprintf("runSession=%s count=%d (before %d)", o, cnt, before), "the slot of a session with this relay URL was not released exactly once")
		}
	}
	if client != nil {
		client.pc.Close()
	}
	// positive control: a URL inside the pattern is dialed once the client has connected
	if pionOK {
		c, err := c16NewClient()
		if err == nil {
			path := "/c06-control"
			p := &c16Plan{poll: "offer", offer: c.offer, client: c, answer: "accept", applyAfter: 0, relayURL: e.relay.wsURL(path)}
			before := e.relay.nHits()
			e.session(c16Proxy("^127.0.0.1$", true), p, 15*time.Second)
			deadline := time.Now().Add(5 * time.Second)
			for time.Now().Before(deadline) && e.relay.nHits() == before {
				time.Sleep(10 * time.Millisecond)
			}
			got := "not-dialed"
			if e.relay.nHits() > before {
				got = "dialed"
			}
			r.Case("c06-relay-url/control-inside-is-dialed/"+got, "relay "+p.relayURL+" pattern ^127.0.0.1$", true)
			if got != "dialed" {
				r.Note("c06 control: a relay inside the pattern was not dialed after the client connected")
			}
			e.relay.closeConn(path)
			c16WaitCount(0, 3*time.Second, 0)
			c.pc.Close()
		}
	}
}

// ---------------------------------------------------------------------------------------------

func c16PionSelfTest(e *c16Env) bool {
	tokens = newTokens(0)
	c, err := c16NewClient()
	if err != nil {
		return false
	}
	defer c.pc.Close()
	p := &c16Plan{poll: "offer", offer: c.offer, client: c, answer: "accept", applyAfter: 0, relayURL: "ws://127.0.0.1:1/"}
	go e.session(e.sf, p, 15*time.Second)
	select {
	case <-c.opened:
		c16WaitCount(0, 3*time.Second, 0)
		return true
	case <-time.After(10 * time.Second):
		return false
	}
}

// TestC16ChildStart: the real Start() loop in a process of its own (it owns the package-level tokens, broker and
// config).  Capacity 7, a broker that always answers "no match": the proxy must hold one slot and report load 0 for
// as long as it runs; polls that report more than the slots it can have in use are printed.
func TestC16ChildStart(t *testing.T) {
	if os.Getenv("VERIF_C16_CHILD") == "" {
		t.Skip("child of TestVerifC16 only")
	}
	log.SetOutput(io.Discard)
	var mu sync.Mutex
	var loads []int
	concurrent, maxConcurrent := 0, 0
	srv := httptest.NewServer(http.HandlerFunc(func(w http.ResponseWriter, req *http.Request) {
		body, _ := io.ReadAll(req.Body)
		if _, _, _, clients, _, _, err := messages.DecodeProxyPollRequestWithRelayPrefix(body); err == nil {
			mu.Lock()
			loads = append(loads, clients)
			concurrent++
			if concurrent > maxConcurrent {
				maxConcurrent = concurrent
			}
			mu.Unlock()
			time.Sleep(300 * time.Millisecond)
			mu.Lock()
			concurrent--
			mu.Unlock()
		}
		out, _ := messages.EncodePollResponse("", false, "")
		w.Write(out)
	}))
	defer srv.Close()
	sf := &SnowflakeProxy{Capacity: 7, BrokerURL: srv.URL + "/", RelayURL: "wss://127.0.0.1:1/", STUNURL: "stun:127.0.0.1:1",
		NATProbeURL: "http://127.0.0.1:1/probe", RelayDomainNamePattern: "$", KeepLocalAddresses: true}
	done := make(chan error, 1)
	go func() { done <- sf.Start() }()
	var d time.Duration
	fmt.Sscanf(os.Getenv("VERIF_C16_CHILD"), "%d", &d)
	select {
	case err := <-done:
		fmt.Printf("C16CHILD start-returned %v\n", err)
	case <-time.After(d * time.Second):
	}
	sf.Stop()
	mu.Lock()
	defer mu.Unlock()
	fmt.Printf("C16CHILD result polls=%d loads=%v maxConcurrentPolls=%d\n", len(loads), loads, maxConcurrent)
}

// TestC16ChildSilentBroker: in a process of its own, the order of events of a running proxy - broker channel set up,
// a NAT type measurement (real checkNATType against a probe that cannot be reached), then a session whose poll is
// accepted by the broker and never answered. The poll must end at the broker transport's response-header timeout
// (30 s) and the session must give its slot back.
func TestC16ChildSilentBroker(t *testing.T) {
	if os.Getenv("VERIF_C16_SILENT") == "" {
		t.Skip("child of TestVerifC16 only")
	}
	log.SetOutput(io.Discard)
	hole, err := net.Listen("tcp", "127.0.0.1:0")
	if err != nil {
		fmt.Printf("C16SILENT skipped %v\n", err)
		return
	}
	defer hole.Close()
	go func() {
		for {
			c, err := hole.Accept()
			if err != nil {
				return
			}
			go func() { io.Copy(io.Discard, c); c.Close() }()
		}
	}()
	broker, err = newSignalingServer("http://"+hole.Addr().String()+"/", true)
	if err != nil {
		fmt.Printf("C16SILENT skipped %v\n", err)
		return
	}
	config = webrtc.Configuration{}
	sf := c16Proxy("$", true)
	sf.checkNATType(webrtc.Configuration{}, "http://127.0.0.1:1/probe")
	tokens = newTokens(1)
	tokens.get()
	t0 := time.Now()
	done := make(chan struct{})
	go func() { defer close(done); sf.runSession(genSessionID()) }()
	select {
	case <-done:
		fmt.Printf("C16SILENT result returned after %v, slots in use %d\n", time.Since(t0).Round(time.Second), tokens.count())
	case <-time.After(50 * time.Second):
		fmt.Printf("C16SILENT result still-polling after 50 s, slots in use %d\n", tokens.count())
	}
}

func (e *c16Env) silentBroker() {
	r := e.r
	cmd := exec.Command(os.Args[0], "-test.run", "^TestC16ChildSilentBroker$", "-test.count=1", "-test.timeout=120s")
	cmd.Env = append(os.Environ(), "VERIF_C16_SILENT=1", "VERIF_OUT=")
	outb, _ := cmd.CombinedOutput()
	res := "process-died"
	for _, l := range strings.Split(string(outb), "\n") {
		if strings.HasPrefix(l, "C16SILENT result ") {
			res = strings.TrimPrefix(l, "C16SILENT result ")
		}
		if strings.HasPrefix(l, "C16SILENT skipped") {
			r.Note("silent broker child: %s", l)
			return
		}
	}
	line := "child process: broker channel, one NAT type measurement (probe unreachable), then a session whose poll the broker accepts and never answers: " + res
	r.Case("exit/silent-broker-after-nat-measurement", line, true)
	switch {
	case res == "process-died":
		r.OracleFail("proxy-process-dies", line, string(outb[len(outb)-imin16(len(outb), 1500):]), "the proxy must survive a silent broker")
	case strings.HasPrefix(res, "still-polling") || !strings.HasSuffix(res, "slots in use 0"):
		r.OracleFail("slot-leaked/silent-broker", line, res, "a poll that the broker never answers ends at the broker transport's response-header timeout (30 s) and the session gives its slot back")
	}
}

// c16RealStart (thorough tier and widened searches only: it needs seven 5 s poll intervals)
func (e *c16Env) realStart(seconds int) {
	r := e.r
	cmd := exec.Command(os.Args[0], "-test.run", "^TestC16ChildStart$", "-test.count=1", "-test.timeout=300s")
	cmd.Env = append(os.Environ(), fmt.Sprintf("VERIF_C16_CHILD=%d", seconds), "VERIF_OUT=")
	outb, _ := cmd.CombinedOutput()
	res := "process-died"
	for _, l := range strings.Split(string(outb), "\n") {
		if strings.HasPrefix(l, "C16CHILD result ") {
			res = strings.TrimPrefix(l, "C16CHILD result ")
		}
	}
	line := fmt.Sprintf("real Start() loop, capacity 7, broker always answers no match, %d s: %s", seconds, res)
	r.Case("start-loop/capacity-7-no-match", line, true)
	var polls int
	var loads string
	fmt.Sscanf(res, "polls=%d", &polls)
	if i := strings.Index(res, "loads=["); i >= 0 {
		loads = res[i+7 : strings.Index(res, "]")]
	}
	switch {
	case res == "process-died":
		r.OracleFail("proxy-process-dies", line, string(outb[len(outb)-imin16(len(outb), 1500):]), "the proxy must keep polling")
	case polls == 0:
		r.Note("real Start(): no poll reached the broker in %d s (NAT probe slow?)", seconds)
	default:
		for _, f := range strings.Fields(loads) {
			var v int
			fmt.Sscanf(f, "%d", &v)
			if v%8 != 0 || v > 7 {
				r.OracleFail("load-not-multiple-of-8-or-above-in-use", line, res, "a capacity-7 proxy cannot have more than 7 slots in use: a reported load of 8 or more exceeds the slots in use")
				break
			}
		}
	}
}

func imin16(a, b int) int {
	if a < b {
		return a
	}
	return b
}

// TestVerifC06Proxy: the proxy-side clause of C06 alone (relay URLs through the real runSession on long-lived
// proxies), registered under C06.
func TestVerifC06Proxy(t *testing.T) {
	r := vh.Start("C06")
	defer r.Finish()
	e := c16Setup(r)
	defer e.broker.srv.Close()
	defer e.relay.srv.Close()
	defer close(e.relay.stop)
	e.pionOK = c16PionSelfTest(e)
	if !e.pionOK {
		r.Skip("pion 2-peer self-test failed: accepted relay URLs are not observable at /answer (junk offers); rejections are still judged")
	}
	e.c06(e.pionOK)
}

func TestVerifC16(t *testing.T) {
	r := vh.Start("C16")
	defer r.Finish()
	e := c16Setup(r)
	defer e.broker.srv.Close()
	defer e.relay.srv.Close()

	// A (its own tokens_t objects: runs beside the rest)
	var wg sync.WaitGroup
	wg.Add(1)
	go func() { defer wg.Done(); e.silentBroker() }() // a process of its own, about 31 s
	tokCases := c16GenTokens(r)
	wg.Add(1)
	go func() { defer wg.Done(); c16Tokens(r, tokCases) }()

	e.pionOK = c16PionSelfTest(e)
	if !e.pionOK {
		r.Skip("pion 2-peer self-test failed: exit paths that need a client (answer refused, client never opens, relay unreachable, normal end) and the forced F11 schedule are not run")
	}

	// B
	fixed := [][]string{
		{"f0/http500", "f0/garbage", "f0/status-error", "f0/undecodable", "f1/badurl", "f2/rejected", "f3/badsdp", "c"},
	}
	if e.pionOK {
		fixed = append(fixed,
			[]string{"f4/refuse", "f4/http500", "u", "d", "c", "h3", "c"},
			[]string{"d", "d", "d", "d", "d", "d", "d", "d", "d", "f2/rejected", "f0/garbage", "h0", "h1", "h2", "h3", "h4", "h5", "h6", "h7", "h8", "c"},
		)
	}
	for i, evs := range fixed {
		e.runEvents([]int{0, 12}[i%2], evs, fmt.Sprintf("fixed%d", i))
	}
	broken := func() bool {
		if e.blocked >= 3 {
			r.Note("%d sessions did not return (see the findings): the remaining session phases are not run", e.blocked)
			return true
		}
		return false
	}
	for i := 0; i < r.N(14, 300) && !broken(); i++ {
		N := []int{0, 1, 2, 4}[r.Rng.Intn(4)]
		e.runEvents(N, c16GenEvents(r.Rng, N, e.pionOK), fmt.Sprintf("gen%d", i))
	}
	if e.pionOK && !broken() {
		e.capacityFull(1)
		e.capacityFull(2)
	}

	if !broken() {
		e.repolled()
	}
	if e.pionOK && !broken() {
		e.stalledDownloader()
	}
	if e.pionOK && !broken() {
		e.stalledRelay()
	}
	if e.pionOK && !broken() {
		e.legacyRelaySessions()
	}
	for k := 0; k < r.N(2, 6) && e.pionOK && !broken(); k++ {
		e.streamingWhileClientLeaves(k)
	}
	if r.Thorough() {
		wg.Add(1)
		go func() { defer wg.Done(); e.realStart(50) }()
	}

	// D
	if !broken() {
		e.c06(e.pionOK)
	}

	// C
	if e.pionOK && !broken() {
		e.timeouts(r.N(6, 24))
	}
	wg.Wait()
}
