//go:build verif

package snowflake_client

// C15 harness: the client's peer pool (Peers), its collection loop, SnowflakeConn.Close and peer
// construction (NewWebRTCPeerWithEvents), against the model `lean/Snowflake/Model/Peers.lean`.
//
//  1. sequential scripts  collect | pop | closePeer i | end | count  with a scripted Tongue (fake peers
//     as the repository's own tests build them), every operation in its own goroutine with a deadline:
//     outcome ok/err/blocked/panic per operation, compared with `sfdriver c15 seq` (one line = one
//     script) and judged by the property oracle (live peers <= max, Pop never returns a closed peer,
//     End returns, closes everything, stops further Catch calls, a second End returns);
//  2. concurrent templates as scripted schedules: End during Catch, End twice concurrently,
//     SnowflakeConn.Close twice on a real connection, connectLoop stopped by End, stale spares;
//  3. NewWebRTCPeerWithEvents / Collect through the real WebRTCDialer with generated ICE
//     configurations (empty, garbage, unreachable, valid) and stub rendezvous methods, under recover.

import (
	"context"
	"errors"
	"fmt"
	"io"
	"log"
	"math/rand"
	"net"
	"net/url"
	"os"
	"os/exec"
	"sort"
	"strings"
	"sync"
	"sync/atomic"
	"testing"
	"time"

	"git.torproject.org/pluggable-transports/snowflake.git/v2/common/event"
	"git.torproject.org/pluggable-transports/snowflake.git/v2/common/messages"
	"git.torproject.org/pluggable-transports/snowflake.git/v2/common/util"
	vh "git.torproject.org/pluggable-transports/snowflake.git/v2/common/zzverif"
	"github.com/pion/ice/v2"
	"github.com/pion/webrtc/v3"
)

// ---------------------------------------------------------------------------------------------
// scripted Tongue

type c15Tongue struct {
	mu      sync.Mutex
	max     int
	script  string // outcome of the k-th Catch call: 'o' ok, 'e' error; ok when exhausted
	peers   []*WebRTCPeer
	catches int
	gate    chan struct{} // when non-nil Catch waits for it to be closed
	entered chan struct{} // receives a token when Catch is entered
}

func (t *c15Tongue) Catch() (*WebRTCPeer, error) {
	t.mu.Lock()
	k := t.catches
	t.catches++
	gate := t.gate
	t.mu.Unlock()
	if t.entered != nil {
		select {
		case t.entered <- struct{}{}:
		default:
		}
	}
	if gate != nil {
		<-gate
	}
	if k < len(t.script) && t.script[k] == 'e' {
		return nil, errors.New("c15: scripted catch failure")
	}
	p := &WebRTCPeer{closed: make(chan struct{})}
	t.mu.Lock()
	t.peers = append(t.peers, p)
	t.mu.Unlock()
	return p, nil
}

func (t *c15Tongue) GetMax() int { return t.max }

func (t *c15Tongue) nCatches() int {
	t.mu.Lock()
	defer t.mu.Unlock()
	return t.catches
}

func (t *c15Tongue) index(p *WebRTCPeer) int {
	t.mu.Lock()
	defer t.mu.Unlock()
	for i, q := range t.peers {
		if q == p {
			return i
		}
	}
	return -1
}

func (t *c15Tongue) openPeers() []int {
	t.mu.Lock()
	defer t.mu.Unlock()
	var out []int
	for i, q := range t.peers {
		if !q.Closed() {
			out = append(out, i)
		}
	}
	return out
}

func c15CollectOutcome(t *c15Tongue, p *WebRTCPeer, err error) string {
	if err == nil {
		return fmt.Sprintf("ok%d", t.index(p))
	}
	switch {
	case strings.Contains(err.Error(), "melted"):
		return "err-melted"
	case strings.HasPrefix(err.Error(), "At capacity"):
		return "err-capacity"
	}
	return "err-catch"
}

type c15Finding struct {
	key, what, detail string
}

// async runs f in its own goroutine; the channel yields its outcome or "panic".
func c15Async(f func() string) chan string {
	ch := make(chan string, 1)
	go func() {
		defer func() {
			if e := recover(); e != nil {
				ch <- "panic"
			}
		}()
		ch <- f()
	}()
	return ch
}

func c15Wait(ch chan string, d time.Duration) (string, bool) {
	select {
	case o := <-ch:
		return o, true
	case <-time.After(d):
		return "blocked", false
	}
}

// ---------------------------------------------------------------------------------------------
// sequential scripts

// c15RunScript executes one script on a fresh Peers.  outs[i] is `o` (operation i returned o when
// issued), `blocked>k:o` (was blocked, returned o while operation k settled) or `blocked`.
func c15RunScript(max int, ops []string, catches string, scale time.Duration) ([]string, []c15Finding) {
	tg := &c15Tongue{max: max, script: catches}
	p, _ := NewPeers(tg)
	deadline := 120 * time.Millisecond * scale
	settle := 20 * time.Millisecond * scale
	outs := make([]string, len(ops))
	pending := map[int]chan string{}
	var fails []c15Finding
	add := func(key, what, detail string) { fails = append(fails, c15Finding{key, what, detail}) }
	endCalled, endReturned, catchesAtEnd := 0, false, 0
	pendingKind := func(kind byte) bool {
		for i := range pending {
			if ops[i][0] == kind {
				return true
			}
		}
		return false
	}
	finished := func(i int, o string) {
		switch ops[i][0] {
		case 'e':
			if o == "ok" && !endReturned {
				endReturned = true
				catchesAtEnd = tg.nCatches()
				if op := tg.openPeers(); len(op) > 0 {
					add("end-left-peer-open", fmt.Sprintf("op %d", i), fmt.Sprintf("End returned but peers %v are still open", op))
				}
			}
			if o == "panic" {
				if endCalled > 1 {
					add("end-twice-panics", fmt.Sprintf("op %d", i), "a second End()/Close() must return, it panicked (close of closed channel)")
				} else {
					add("end-panics", fmt.Sprintf("op %d", i), "End() panicked")
				}
			}
		case 'c':
			if o == "panic" {
				add("collect-panics", fmt.Sprintf("op %d", i), "Collect() panicked")
			}
		}
	}
	for k, op := range ops {
		var ch chan string
		switch op[0] {
		case 'c':
			ch = c15Async(func() string { pe, err := p.Collect(); return c15CollectOutcome(tg, pe, err) })
		case 'p':
			endInFlight := pendingKind('e')
			ch = c15Async(func() string {
				pe := p.Pop()
				if pe == nil {
					return "nil"
				}
				if pe.Closed() && !endInFlight {
					return fmt.Sprintf("p%d-CLOSED", tg.index(pe))
				}
				return fmt.Sprintf("p%d", tg.index(pe))
			})
		case 'x':
			var i int
			fmt.Sscanf(op[1:], "%d", &i)
			ch = c15Async(func() string {
				tg.mu.Lock()
				var pe *WebRTCPeer
				if i < len(tg.peers) {
					pe = tg.peers[i]
				}
				tg.mu.Unlock()
				if pe == nil {
					return "none"
				}
				pe.Close()
				return "closed"
			})
		case 'e':
			endCalled++
			ch = c15Async(func() string { p.End(); return "ok" })
		case 'n':
			ch = c15Async(func() string {
				if os.Getenv("VERIF_RACE") == "1" {
					// Count() is unsynchronised by design (the client only calls it with collectLock held); under the
					// race detector the observation takes the lock like the client does and is skipped while a Collect holds it
					if !p.collectLock.TryLock() {
						return "n?"
					}
					defer p.collectLock.Unlock()
				}
				return fmt.Sprintf("n%d", p.Count())
			})
		}
		if o, ok := c15Wait(ch, deadline); ok {
			outs[k] = o
			finished(k, o)
		} else {
			outs[k] = "blocked"
			pending[k] = ch
			if op[0] == 'e' {
				if pendingKind('c') && len(p.snowflakeChan) == cap(p.snowflakeChan) {
					add("end-blocked-by-collect-on-full-channel", fmt.Sprintf("op %d", k),
						fmt.Sprintf("End() does not return: a Collect() is blocked sending on the full hand-over channel (%d/%d, %d live peers) while holding collectLock",
							len(p.snowflakeChan), cap(p.snowflakeChan), len(tg.openPeers())))
				} else {
					add("end-blocked", fmt.Sprintf("op %d", k), "End() does not return")
				}
			}
		}
		for len(pending) > 0 {
			time.Sleep(settle)
			progressed := false
			var idx []int
			for i := range pending {
				idx = append(idx, i)
			}
			sort.Ints(idx)
			for _, i := range idx {
				select {
				case o := <-pending[i]:
					if i == k {
						outs[i] = o
					} else {
						outs[i] = fmt.Sprintf("blocked>%d:%s", k, o)
					}
					delete(pending, i)
					finished(i, o)
					progressed = true
				default:
				}
			}
			if !progressed {
				break
			}
		}
		if live := tg.openPeers(); len(live) > max {
			add("live-peers-exceed-max", fmt.Sprintf("after op %d", k), fmt.Sprintf("%d live peers %v with max %d", len(live), live, max))
		}
		if strings.Contains(outs[k], "-CLOSED") {
			add("pop-returned-closed-peer", fmt.Sprintf("op %d", k), "Pop() handed over a peer that was already closed: "+outs[k])
			outs[k] = strings.Replace(outs[k], "-CLOSED", "", 1)
		}
	}
	if endReturned && tg.nCatches() != catchesAtEnd {
		add("catch-after-end", "script", fmt.Sprintf("Catch was called %d more time(s) after End() had returned", tg.nCatches()-catchesAtEnd))
	}
	// release whatever is still blocked (the goroutines of this script must not pile up)
	go func() { defer func() { recover() }(); p.End() }()
	go func() {
		defer func() { recover() }()
		for p.Pop() != nil {
		}
	}()
	return outs, fails
}

func c15GenScript(rng *rand.Rand) (int, []string, string) {
	max := []int{1, 1, 2, 2, 2, 3, 4}[rng.Intn(7)]
	n := 3 + rng.Intn(10)
	var ops []string
	created := 0
	for len(ops) < n {
		switch x := rng.Intn(100); {
		case x < 34:
			ops = append(ops, "c")
			created++
		case x < 46 && created > 0:
			// a spare that goes stale right away
			ops = append(ops, "c", fmt.Sprintf("x%d", created))
			created++
		case x < 62:
			ops = append(ops, "p")
		case x < 78:
			ops = append(ops, fmt.Sprintf("x%d", rng.Intn(created+2)))
		case x < 82:
			ops = append(ops, "e")
		case x < 88 && created > 1:
			// an older peer closes by itself right before End (not purged yet, in front of live ones)
			ops = append(ops, fmt.Sprintf("x%d", rng.Intn(created-1)), "e")
		case x < 88:
			ops = append(ops, "e")
		default:
			ops = append(ops, "n")
		}
	}
	var cs []byte
	for i := 0; i < created; i++ {
		if rng.Intn(6) == 0 {
			cs = append(cs, 'e')
		} else {
			cs = append(cs, 'o')
		}
	}
	if len(cs) == 0 {
		return max, ops, "-"
	}
	return max, ops, string(cs)
}

type c15Script struct {
	max     int
	ops     []string
	catches string
	class   string
}

func c15FixedScripts() []c15Script {
	out := []c15Script{
		{1, []string{"e", "e"}, "-", "end-twice"},
		{1, []string{"c", "e", "e", "c", "p"}, "-", "end-twice"},
		{2, []string{"c", "c", "p", "e", "n", "e", "e"}, "-", "end-twice"},
		{1, []string{"p", "c", "n", "c", "x0", "c"}, "-", "pop-first"},
		{3, []string{"c", "c", "c", "c", "p", "p", "p", "p", "c", "e"}, "-", "capacity"},
		{1, []string{"p", "e", "c", "p", "n"}, "-", "pop-then-end"},
		{2, []string{"c", "e", "c", "e"}, "e", "catch-error"},
	}
	// a peer that closed by itself and was not purged yet sits in front of live ones when End runs
	out = append(out,
		c15Script{2, []string{"c", "c", "x0", "e", "n"}, "-", "closed-in-front-at-end"},
		c15Script{3, []string{"c", "c", "c", "x0", "e", "n"}, "-", "closed-in-front-at-end"},
		c15Script{3, []string{"c", "c", "c", "x1", "e", "n"}, "-", "closed-in-front-at-end"},
		c15Script{2, []string{"c", "p", "c", "x0", "e", "n"}, "-", "closed-in-front-at-end"},
		c15Script{4, []string{"c", "c", "c", "c", "x0", "x2", "e", "n"}, "-", "closed-in-front-at-end"},
	)
	// stale spares: one peer in use, `max` spares collected and gone stale, one more Collect, End
	for max := 2; max <= 4; max++ {
		ops := []string{"c", "p"}
		for i := 1; i <= max; i++ {
			ops = append(ops, "c", fmt.Sprintf("x%d", i))
		}
		ops = append(ops, "c", "e", "n", "p")
		out = append(out, c15Script{max, ops, "-", "stale-spares"})
	}
	return out
}

func c15ScriptLine(s c15Script) string {
	return fmt.Sprintf("c15 seq 111 %d %s %s", s.max, strings.Join(s.ops, ","), s.catches)
}

// c15CheckScript runs one script and returns the function that records its result (results are
// recorded in script order so that the first finding of a class is the simplest, stable one).
func c15CheckScript(r *vh.Run, s c15Script) func() {
	line := c15ScriptLine(s)
	model := r.Model(line)
	outs, fails := c15RunScript(s.max, s.ops, s.catches, 1)
	real := strings.Join(outs, ",")
	timing := real != model
	for _, f := range fails {
		if strings.Contains(f.key, "blocked") {
			timing = true
		}
	}
	if timing {
		// outcomes that involve deadlines are confirmed with 4x longer deadlines before they count
		outs, fails = c15RunScript(s.max, s.ops, s.catches, 4)
		real = strings.Join(outs, ",")
	}
	shape := "plain"
	if strings.Contains(real, "blocked>") {
		shape = "late"
	} else if strings.Contains(real, "blocked") {
		shape = "blocked"
	}
	return func() {
		r.Case(fmt.Sprintf("seq/%s/max=%d/%s", s.class, s.max, shape), line, true)
		r.Compare("seq", line, real, model)
		seen := map[string]bool{}
		for _, f := range fails {
			if !seen[f.key] {
				seen[f.key] = true
				r.OracleFail(f.key, line+"  ["+f.what+"]", real, f.detail)
			}
		}
	}
}

// ---------------------------------------------------------------------------------------------
// concurrent templates

// field extracts `key=value` from a model summary.
func c15Field(summary, key string) string {
	for _, tok := range strings.Fields(summary) {
		if strings.HasPrefix(tok, key+"=") {
			return tok[len(key)+1:]
		}
	}
	return "?"
}

// End is called while a Catch is in flight (pre peers already collected, pre < max).
func c15EndDuringCatch(r *vh.Run, max, pre int, catchOK bool) {
	script := strings.Repeat("o", pre)
	env := "ok"
	if catchOK {
		script += "o"
	} else {
		script += "e"
		env = "brokerFail"
	}
	tg := &c15Tongue{max: max, script: script, entered: make(chan struct{}, 16)}
	p, _ := NewPeers(tg)
	var labs []string
	for i := 0; i < pre; i++ {
		p.Collect()
		labs = append(labs, fmt.Sprintf("cCall:%d,cLock:%d,cCheck:%d,cCatch:%d:ok,cSend:%d", i, i, i, i, i))
	}
	for len(tg.entered) > 0 {
		<-tg.entered
	}
	gate := make(chan struct{})
	tg.mu.Lock()
	tg.gate = gate
	tg.mu.Unlock()
	c := pre
	collectCh := c15Async(func() string { pe, err := p.Collect(); return c15CollectOutcome(tg, pe, err) })
	select {
	case <-tg.entered:
	case <-time.After(5 * time.Second):
		r.Note("end-during-catch: Catch was not entered")
		close(gate)
		return
	}
	labs = append(labs, fmt.Sprintf("cCall:%d,cLock:%d,cCheck:%d,eCall:0,eMelt:0", c, c, c))
	endCh := c15Async(func() string { p.End(); return "ok" })
	early, returnedEarly := c15Wait(endCh, 150*time.Millisecond)
	waited := "1"
	if returnedEarly {
		waited = "0"
		endCh <- early
	}
	// model: after close(melt) the End goroutine cannot take the lock while Catch is in flight
	mWait := r.Model(fmt.Sprintf("c15 sched 111 %d %s,eLock:0", max, strings.Join(labs, ",")))
	mWaited := "0"
	if strings.HasPrefix(mWait, "disabled@") {
		mWaited = "1"
	}
	tg.mu.Lock()
	tg.gate = nil
	tg.mu.Unlock()
	close(gate)
	cOut, _ := c15Wait(collectCh, 3*time.Second)
	eOut, _ := c15Wait(endCh, 3*time.Second)
	before := tg.nCatches()
	lateCh := c15Async(func() string { pe, err := p.Collect(); return c15CollectOutcome(tg, pe, err) })
	later, _ := c15Wait(lateCh, 3*time.Second)
	open := tg.openPeers()
	real := fmt.Sprintf("endWaited=%s collect=%s end=%s open=%d later=%s catches=%d", waited, cOut, eOut, len(open), later, tg.nCatches())
	// the hand-over select may take either arm when the channel has room and melt is closed
	arm := fmt.Sprintf("cSend:%d", c)
	if cOut == "err-melted" {
		arm = fmt.Sprintf("cMeltArm:%d", c)
	}
	rest := fmt.Sprintf("cCatch:%d:%s", c, env)
	if catchOK {
		rest += "," + arm
	}
	rest += fmt.Sprintf(",eLock:0,eCrit:0,cCall:%d,cLock:%d,cCheck:%d", c+1, c+1, c+1)
	line := fmt.Sprintf("c15 sched 111 %d %s,%s", max, strings.Join(labs, ","), rest)
	sum := r.Model(line)
	nOpen := 0
	if o := c15Field(sum, "open"); o != "-" && o != "?" {
		nOpen = len(strings.Split(o, "."))
	}
	model := fmt.Sprintf("endWaited=%s collect=%s end=%s open=%d later=%s catches=%s", mWaited,
		c15Field(sum, fmt.Sprintf("c%d", c)), c15Field(sum, "e0"), nOpen, c15Field(sum, fmt.Sprintf("c%d", c+1)), c15Field(sum, "catches"))
	if strings.HasPrefix(sum, "disabled@") || sum == "bad-op" {
		model = sum
	}
	r.Case(fmt.Sprintf("template/end-during-catch/max=%d/pre=%d/catchOK=%v/%s", max, pre, catchOK, cOut), line, true)
	r.Compare("end-during-catch", line, real, model)
	switch {
	case eOut == "panic":
		r.OracleFail("end-panics", line, real, "End() during an in-flight Catch panicked")
	case eOut == "blocked":
		r.OracleFail("end-blocked-during-catch", line, real, "End() did not return after the in-flight Catch had returned")
	case len(open) > 0:
		r.OracleFail("end-left-peer-open", line, real, fmt.Sprintf("peers %v still open after End() returned", open))
	}
	if tg.nCatches() != before {
		r.OracleFail("catch-after-end", line, real, "Collect() called Catch after End() had returned")
	}
}

// Two goroutines call End at the same time.
func c15ConcurrentEnd(r *vh.Run, max, pre int) {
	tg := &c15Tongue{max: max}
	p, _ := NewPeers(tg)
	var labs []string
	for i := 0; i < pre; i++ {
		p.Collect()
		labs = append(labs, fmt.Sprintf("cCall:%d,cLock:%d,cCheck:%d,cCatch:%d:ok,cSend:%d", i, i, i, i, i))
	}
	start := make(chan struct{})
	a := c15Async(func() string { <-start; p.End(); return "ok" })
	b := c15Async(func() string { <-start; p.End(); return "ok" })
	close(start)
	ao, _ := c15Wait(a, 3*time.Second)
	bo, _ := c15Wait(b, 3*time.Second)
	if ao > bo {
		ao, bo = bo, ao
	}
	real := fmt.Sprintf("ends=%s,%s open=%d", ao, bo, len(tg.openPeers()))
	labs = append(labs, "eCall:0,eCall:1,eMelt:0,eLock:0,eCrit:0,eOnce:1")
	line := fmt.Sprintf("c15 sched 111 %d %s", max, strings.Join(labs, ","))
	sum := r.Model(line)
	nOpen := 0
	if o := c15Field(sum, "open"); o != "-" && o != "?" {
		nOpen = len(strings.Split(o, "."))
	}
	model := fmt.Sprintf("ends=%s,%s open=%d", c15Field(sum, "e0"), c15Field(sum, "e1"), nOpen)
	r.Case(fmt.Sprintf("template/concurrent-end/max=%d/pre=%d", max, pre), line, true)
	r.Compare("concurrent-end", line, real, model)
	if ao == "panic" || bo == "panic" {
		r.OracleFail("end-twice-panics", line+"  [two goroutines call End() at the same time]", real,
			"a second End()/Close() must return, it panicked (close of closed channel)")
	} else if ao == "blocked" || bo == "blocked" {
		r.OracleFail("end-blocked", line, real, "concurrent End() calls did not both return")
	}
}

// c15ErrRendezvous: a rendezvous method whose exchange is in flight until released and then fails with a given
// class of error. Used for "Close while a rendezvous attempt is in flight": End() may wait for that one attempt,
// and no further attempt may follow, whatever kind of error the attempt ends with.
type c15ErrRendezvous struct {
	err     error
	mu      sync.Mutex
	n       int
	entered chan struct{} // closed when the first exchange has started
	release chan struct{} // the first exchange returns when this is closed
	once    sync.Once
}

func (s *c15ErrRendezvous) Exchange(req []byte) ([]byte, error) {
	s.mu.Lock()
	s.n++
	first := s.n == 1
	s.mu.Unlock()
	if first {
		s.once.Do(func() { close(s.entered) })
		<-s.release
	}
	return nil, s.err
}

func (s *c15ErrRendezvous) calls() int {
	s.mu.Lock()
	defer s.mu.Unlock()
	return s.n
}

type c15TimeoutErr struct{ temporary bool }

func (e c15TimeoutErr) Error() string   { return "c15: i/o timeout" }
func (e c15TimeoutErr) Timeout() bool   { return !e.temporary }
func (e c15TimeoutErr) Temporary() bool { return true }

func c15CloseDuringRendezvous(r *vh.Run) {
	classes := []struct {
		name string
		err  error
	}{
		{"plain error", errors.New("c15: broker unreachable")},
		{"net.OpError with Timeout() true", &net.OpError{Op: "dial", Net: "tcp", Err: c15TimeoutErr{}}},
		{"url.Error wrapping a timeout", &url.Error{Op: "Post", URL: "https://broker.invalid/", Err: c15TimeoutErr{}}},
		{"context.DeadlineExceeded", context.DeadlineExceeded},
		{"os.ErrDeadlineExceeded", os.ErrDeadlineExceeded},
		{"temporary net error", &net.OpError{Op: "read", Net: "tcp", Err: c15TimeoutErr{temporary: true}}},
		{"io.ErrUnexpectedEOF", io.ErrUnexpectedEOF},
	}
	var wg sync.WaitGroup
	for _, cl := range classes {
		wg.Add(1)
		go func(name string, e error) {
			defer wg.Done()
			stub := &c15ErrRendezvous{err: e, entered: make(chan struct{}), release: make(chan struct{})}
			broker := &BrokerChannel{Rendezvous: stub, keepLocalAddresses: true, natType: "unknown"}
			peers, _ := NewPeers(NewWebRTCDialerWithEvents(broker, nil, 1, c15Renderer()))
			line := fmt.Sprintf("Collect() with a rendezvous exchange in flight; End() is called; the exchange then fails with %s", name)
			r.Case("close-during-rendezvous/"+name, line, true)
			col := c15Async(func() string {
				if _, err := peers.Collect(); err != nil {
					return "err"
				}
				return "ok"
			})
			select {
			case <-stub.entered:
			case <-time.After(20 * time.Second):
				r.Note("close during rendezvous (%s): the exchange never started", name)
				close(stub.release)
				return
			}
			end := c15Async(func() string { peers.End(); return "ok" })
			time.Sleep(100 * time.Millisecond)
			close(stub.release)
			t0 := time.Now()
			eo, _ := c15Wait(end, 8*time.Second)
			took := time.Since(t0)
			co, _ := c15Wait(col, 8*time.Second)
			time.Sleep(2500 * time.Millisecond) // would a further attempt follow?
			real := fmt.Sprintf("End: %s %v after the attempt in flight had failed; Collect: %s; exchanges with the broker: %d", eo, took.Round(10*time.Millisecond), co, stub.calls())
			if eo != "ok" || took > 1500*time.Millisecond {
				r.OracleFail("close-waits-for-more-than-the-attempt-in-flight", line, real, "closing waits at most for the one rendezvous attempt already in flight")
			}
			if stub.calls() > 1 {
				r.OracleFail("rendezvous-attempt-after-close", line, real, "closing stops all further rendezvous attempts with the broker")
			}
		}(cl.name, cl.err)
	}
	wg.Wait()
}

type c15StubRendezvous struct {
	kind string
	mu   sync.Mutex
	pcs  []*webrtc.PeerConnection
	n    int
}

func (s *c15StubRendezvous) Exchange(req []byte) ([]byte, error) {
	s.mu.Lock()
	s.n++
	s.mu.Unlock()
	enc := func(answer, e string) ([]byte, error) {
		resp := &messages.ClientPollResponse{Answer: answer, Error: e}
		return resp.EncodePollResponse()
	}
	switch s.kind {
	case "unreachable":
		return nil, errors.New("c15: broker unreachable")
	case "garbage":
		return []byte("\x00\xffnot json"), nil
	case "empty":
		return []byte("{}"), nil
	case "refuse":
		return enc("", "no snowflake proxies currently available")
	case "answer-notjson":
		return enc("][", "")
	case "answer-notype":
		return enc(`{"sdp":"v=0"}`, "")
	case "answer-badtype":
		return enc(`{"type":"bogus","sdp":"v=0"}`, "")
	case "answer-badsdp":
		return enc(`{"type":"answer","sdp":"this is not sdp"}`, "")
	case "mute", "live":
		cr, err := messages.DecodeClientPollRequest(req)
		if err != nil {
			return nil, err
		}
		offer, err := util.DeserializeSessionDescription(cr.Offer)
		if err != nil {
			return nil, err
		}
		se := webrtc.SettingEngine{}
		se.SetICEMulticastDNSMode(ice.MulticastDNSModeDisabled)
		pc, err := webrtc.NewAPI(webrtc.WithSettingEngine(se)).NewPeerConnection(webrtc.Configuration{})
		if err != nil {
			return nil, err
		}
		done := webrtc.GatheringCompletePromise(pc)
		if err = pc.SetRemoteDescription(*offer); err != nil {
			return nil, err
		}
		ans, err := pc.CreateAnswer(nil)
		if err != nil {
			return nil, err
		}
		if err = pc.SetLocalDescription(ans); err != nil {
			return nil, err
		}
		<-done
		sd, err := util.SerializeSessionDescription(pc.LocalDescription())
		if err != nil {
			return nil, err
		}
		if s.kind == "mute" {
			pc.Close() // the proxy goes away: the data channel never opens
		} else {
			s.mu.Lock()
			s.pcs = append(s.pcs, pc)
			s.mu.Unlock()
		}
		return enc(sd, "")
	}
	return nil, errors.New("c15: unknown stub")
}

func (s *c15StubRendezvous) close() {
	s.mu.Lock()
	defer s.mu.Unlock()
	for _, pc := range s.pcs {
		pc.Close()
	}
}

// SnowflakeConn.Close twice on a connection obtained from the real Transport.Dial.  Dial starts the
// real connectLoop in a goroutine of its own; a panic there kills the process, so this template runs
// in a child process (the test binary re-executed) and a dead child is an outcome, not a lost run.
func TestC15ChildDialClose(t *testing.T) {
	mode := os.Getenv("VERIF_C15_CHILD")
	if mode == "" {
		t.Skip("child of TestVerifC15 only")
	}
	log.SetOutput(io.Discard)
	var ice []string
	if mode != "none" {
		ice = strings.Split(strings.TrimPrefix(mode, "ice:"), ",")
	}
	// the client exactly as the binary builds it: NewSnowflakeClient parses the ICE addresses, starts the NAT-type
	// probe goroutine over them and wires the dialer; only the rendezvous method is replaced (unreachable broker)
	brokerURL := "http://127.0.0.1:1/"
	silent := os.Getenv("VERIF_C15_DEAD") == "silent-broker"
	if silent {
		// a broker that accepts the connection, reads the poll and never answers; the REAL rendezvous method and broker
		// transport are used: the attempt in flight ends at the transport's response-header timeout
		hole, err := net.Listen("tcp", "127.0.0.1:0")
		if err != nil {
			fmt.Printf("C15CHILD dial-failed listen: %v\n", err)
			return
		}
		defer hole.Close()
		go func() {
			for {
				c, err := hole.Accept()
				if err != nil {
					return
				}
				go func() { io.Copy(io.Discard, c); c.Close() }()
			}
		}()
		brokerURL = "http://" + hole.Addr().String() + "/"
	}
	tr, err := NewSnowflakeClient(ClientConfig{BrokerURL: brokerURL, ICEAddresses: ice, KeepLocalAddresses: true, Max: 1})
	if err != nil {
		fmt.Printf("C15CHILD dial-failed NewSnowflakeClient: %v\n", err)
		return
	}
	if !silent {
		tr.SetRendezvousMethod(&c15StubRendezvous{kind: "unreachable"})
	}
	c, err := tr.Dial()
	if err != nil {
		fmt.Printf("C15CHILD dial-failed %v\n", err)
		return
	}
	time.Sleep(300 * time.Millisecond) // let connectLoop make its first attempt
	dead := os.Getenv("VERIF_C15_DEAD")
	sc, _ := c.(*SnowflakeConn)
	switch dead {
	case "session": // the smux session died by itself (keep-alive timeout after a long outage)
		if sc != nil {
			sc.sess.Close()
		}
	case "stream": // the application closed the embedded stream first
		if sc != nil {
			sc.Stream.Close()
		}
	}
	one := func() string { c.Close(); return "ok" }
	first := 15 * time.Second
	if silent {
		time.Sleep(time.Second) // the poll is with the silent broker now
		first = 30 * time.Second
	}
	o1, _ := c15Wait(c15Async(one), first)
	o2, _ := c15Wait(c15Async(one), 15*time.Second)
	time.Sleep(200 * time.Millisecond)
	melted := "?"
	if sc != nil {
		select {
		case <-sc.snowflakes.Melted():
			melted = "yes"
		default:
			melted = "NO"
		}
	}
	fmt.Printf("C15CHILD melted %s\n", melted)
	fmt.Printf("C15CHILD result %s,%s\n", o1, o2)
}

func c15DialCloseTwice(r *vh.Run, ice []string) { c15DialClose(r, ice, "") }

// dead: "" | "session" | "stream" — what had already died when Close is called the first time
func c15DialClose(r *vh.Run, ice []string, dead string) {
	mode := "none"
	if ice != nil {
		mode = "ice:" + strings.Join(ice, ",")
	}
	cmd := exec.Command(os.Args[0], "-test.run", "^TestC15ChildDialClose$", "-test.count=1", "-test.timeout=120s")
	cmd.Env = append(os.Environ(), "VERIF_C15_CHILD="+mode, "VERIF_C15_DEAD="+dead, "VERIF_OUT=")
	outb, _ := cmd.CombinedOutput()
	out := string(outb)
	real := "process-died"
	detail := ""
	melted := ""
	for _, l := range strings.Split(out, "\n") {
		if strings.HasPrefix(l, "C15CHILD melted ") {
			melted = strings.TrimPrefix(l, "C15CHILD melted ")
		}
		if strings.HasPrefix(l, "C15CHILD result ") {
			real = strings.TrimPrefix(l, "C15CHILD result ")
		}
		if strings.HasPrefix(l, "C15CHILD dial-failed") {
			r.Skip("dial-close-twice: " + l)
			return
		}
		if strings.HasPrefix(l, "panic:") || strings.Contains(l, "[signal ") || strings.Contains(l, ".connect(") || strings.Contains(l, "webrtc.go:") || strings.Contains(l, "snowflake.go:") {
			detail += strings.TrimSpace(l) + " | "
		}
	}
	line := "c15 seq 111 1 e,e -"
	caseLine := fmt.Sprintf("%s  [child process: Transport.Dial with ICEAddresses %q and an unreachable broker, then SnowflakeConn.Close() twice]", line, ice)
	if dead == "silent-broker" {
		caseLine = strings.Replace(caseLine, "an unreachable broker", "a broker that accepts the poll and never answers (real rendezvous method and transport)", 1)
	} else if dead != "" {
		caseLine += fmt.Sprintf("  [the %s was already dead at the first Close]", dead)
	}
	r.Case(fmt.Sprintf("template/dial-close-twice/ice=%q/dead=%q/%s", ice, dead, real), caseLine, true)
	r.Compare("dial-close-twice", caseLine, real, r.Model(line))
	if melted == "NO" {
		r.OracleFail("close-did-not-stop-collecting", caseLine, "after Close returned the peer collection has not been ended (Melted() still open)",
			"closing the connection stops all further rendezvous attempts and closes every peer it holds, also when the stream or session had already died")
	}
	switch {
	case real == "process-died":
		key := "client-process-dies"
		if ice != nil {
			key = "bad-ice-config-panics"
		}
		r.OracleFail(key, caseLine, real,
			"a failed attempt to obtain a peer must never terminate the client process; the child died: "+detail)
	case strings.Contains(real, "panic"):
		r.OracleFail("end-twice-panics", caseLine, real,
			"closing a SnowflakeConn repeatedly must return, a Close panicked (close of closed channel in Peers.End)")
	case strings.Contains(real, "blocked"):
		r.OracleFail("end-blocked", caseLine, real, "SnowflakeConn.Close() did not return within 15 s (30 s with a rendezvous attempt held by a silent broker: the broker transport gives up after 15 s)")
	}
}

// c15StallLog delays every log line a little: any window of the code under test that contains logging becomes wide
// enough for another goroutine to get in.
type c15StallLog struct{}

func (c15StallLog) Write(p []byte) (int, error) {
	time.Sleep(500 * time.Microsecond)
	return len(p), nil
}

// c15StaleQueueRace: the hand-over queue is full of spares that went stale; a Collect (whose Catch succeeds) races a
// Pop that drains the stale entries; afterwards End must return.  Repeated with the Pop started at varying offsets
// and a log writer that widens every logging window.
func c15StaleQueueRace(r *vh.Run) {
	log.SetOutput(c15StallLog{})
	defer log.SetOutput(io.Discard)
	n := r.N(40, 400)
	blockedEnd, blockedCollect := 0, 0
	for it := 0; it < n && blockedEnd == 0; it++ {
		tg := &c15Tongue{max: 2}
		p, _ := NewPeers(tg)
		for k := 0; k < 2; k++ {
			if pe, err := p.Collect(); err == nil {
				pe.Close() // a spare that goes stale while queued
			}
		}
		col := c15Async(func() string { _, err := p.Collect(); return fmt.Sprint(err == nil) })
		delay := time.Duration(r.Rng.Intn(3000)) * time.Microsecond
		pop := c15Async(func() string {
			time.Sleep(delay)
			if pe := p.Pop(); pe == nil {
				return "nil"
			}
			return "peer"
		})
		if _, ok := c15Wait(col, 3*time.Second); !ok {
			blockedCollect++
		}
		end := c15Async(func() string { p.End(); return "ok" })
		if _, ok := c15Wait(end, 5*time.Second); !ok {
			blockedEnd++
		}
		c15Wait(pop, time.Second)
	}
	desc := fmt.Sprintf("max=2, two spares collected and gone stale (queue full), then Collect racing a Pop that drains them, then End; %d rounds", n)
	r.Case("template/stale-queue-collect-vs-pop", desc, true)
	if blockedEnd > 0 {
		r.OracleFail("end-blocked", desc, fmt.Sprintf("End did not return within 5 s (Collect still blocked in %d round(s))", blockedCollect),
			"Close returns in bounded time also while a new peer is being collected after spare peers have gone stale")
	}
}

// The real connectLoop is stopped by End (optionally while its Collect is inside Catch).
func c15ConnectLoop(r *vh.Run, duringCatch bool) {
	tg := &c15Tongue{max: 2, entered: make(chan struct{}, 16)}
	gate := make(chan struct{})
	if duringCatch {
		tg.gate = gate
	}
	p, _ := NewPeers(tg)
	loop := c15Async(func() string { connectLoop(p); return "stopped" })
	select {
	case <-tg.entered:
	case <-time.After(5 * time.Second):
		r.Note("connectLoop: Catch was not entered")
		return
	}
	if !duringCatch {
		time.Sleep(50 * time.Millisecond) // first Collect done; the loop now waits ReconnectTimeout or Melted
	}
	endCh := c15Async(func() string { p.End(); return "ok" })
	if duringCatch {
		time.Sleep(50 * time.Millisecond)
		close(gate)
	}
	eOut, _ := c15Wait(endCh, 3*time.Second)
	lOut, _ := c15Wait(loop, 3*time.Second)
	time.Sleep(100 * time.Millisecond)
	real := fmt.Sprintf("end=%s loop=%s catches=%d open=%d", eOut, lOut, tg.nCatches(), len(tg.openPeers()))
	var line string
	if duringCatch {
		arm := "cSend:0"
		if len(p.snowflakeChan) == 0 && tg.nCatches() == 1 {
			// the peer was not handed over: the melt arm was taken (either arm is allowed)
			arm = "cMeltArm:0"
		}
		line = "c15 sched 111 2 cCall:0,cLock:0,cCheck:0,eCall:0,eMelt:0,cCatch:0:ok," + arm + ",eLock:0,eCrit:0,lMelted:0"
	} else {
		line = "c15 sched 111 2 cCall:0,cLock:0,cCheck:0,cCatch:0:ok,cSend:0,eCall:0,eMelt:0,eLock:0,eCrit:0,lMelted:0"
	}
	sum := r.Model(line)
	nOpen := 0
	if o := c15Field(sum, "open"); o != "-" && o != "?" {
		nOpen = len(strings.Split(o, "."))
	}
	model := fmt.Sprintf("end=%s loop=%s catches=%s open=%d", c15Field(sum, "e0"), c15Field(sum, "c0"), c15Field(sum, "catches"), nOpen)
	r.Case(fmt.Sprintf("template/connect-loop/duringCatch=%v", duringCatch), line, true)
	r.Compare("connect-loop", line, real, model)
	if lOut != "stopped" {
		r.OracleFail("connect-loop-survives-end", line, real, "connectLoop did not stop within 3 s after End()")
	}
	if eOut != "ok" {
		r.OracleFail("end-blocked", line, real, "End() did not return while connectLoop was running")
	}
	if tg.nCatches() != 1 {
		r.OracleFail("catch-after-end", line, real, "connectLoop made another rendezvous attempt after End()")
	}
}

// ---------------------------------------------------------------------------------------------
// peer construction with generated ICE configurations

type c15IceCase struct {
	name string
	urls []string // nil = no ICE servers at all
	stub string
}

func c15IceCases(r *vh.Run, pionOK bool) []c15IceCase {
	rng := r.Rng
	garbage := []string{"foo", "stun:", ":", "http://example.com", "stun:host:notaport", "turn:turn.example.com:3478",
		"stun://[::1", "STUN:UPPER.example:1", "stun:a b", "\x00", "stuns:", "turns:x", "stun:example.com:99999", " ", "stun:example.com?transport=tcp"}
	for i := 0; i < 4; i++ {
		b := make([]byte, 1+rng.Intn(12))
		for j := range b {
			b[j] = byte(32 + rng.Intn(95))
		}
		garbage = append(garbage, string(b))
	}
	var out []c15IceCase
	// what the client binary does with its -ice flag / ice= SOCKS argument
	for _, flagv := range []string{"", " ", ",", "stun:192.0.2.2:3478,", "stun:192.0.2.2:3478, stun:192.0.2.2:3479"} {
		servers := parseIceServers(strings.Split(strings.TrimSpace(flagv), ","))
		var urls []string
		for _, s := range servers {
			urls = append(urls, s.URLs...)
		}
		out = append(out, c15IceCase{fmt.Sprintf("flag=%q", flagv), urls, "unreachable"})
	}
	for _, g := range garbage {
		out = append(out, c15IceCase{"garbage", []string{g}, "unreachable"})
	}
	out = append(out, c15IceCase{"garbage-second", []string{"stun:192.0.2.2:3478", garbage[rng.Intn(len(garbage))]}, "unreachable"})
	stubs := []string{"unreachable", "garbage", "empty", "refuse", "answer-notjson", "answer-notype", "answer-badtype", "answer-badsdp"}
	for _, s := range stubs {
		out = append(out, c15IceCase{"no-ice", nil, s})
	}
	// a STUN server that never answers (TEST-NET address, nothing listens)
	out = append(out, c15IceCase{"unreachable-stun", []string{"stun:192.0.2.77:3478"}, "refuse"})
	if pionOK {
		out = append(out, c15IceCase{"no-ice", nil, "live"})
		out = append(out, c15IceCase{"no-ice", nil, "mute"}) // waits DataChannelTimeout (10 s)
	}
	return out
}

func c15EnvOf(c c15IceCase) string {
	// the environment class is read off pion itself: does NewPeerConnection accept the configuration?
	cfg := webrtc.Configuration{}
	for _, u := range c.urls {
		cfg.ICEServers = append(cfg.ICEServers, webrtc.ICEServer{URLs: []string{u}})
	}
	se := webrtc.SettingEngine{}
	se.SetICEMulticastDNSMode(ice.MulticastDNSModeDisabled)
	pc, err := webrtc.NewAPI(webrtc.WithSettingEngine(se)).NewPeerConnection(cfg)
	if err != nil {
		return "pcFail"
	}
	pc.Close()
	switch c.stub {
	case "answer-badsdp":
		return "sdpFail"
	case "mute":
		return "dcTimeout"
	case "live":
		return "ok"
	}
	return "brokerFail"
}

// c15Render renders every event as text, like the client binary's ptEventLogger does: an event that cannot
// be rendered (nil error inside a failure event) panics in the collecting goroutine and kills the client.
type c15Render struct{}

func (c15Render) OnNewSnowflakeEvent(e event.SnowflakeEvent) { _ = e.String() }

func c15Renderer() event.SnowflakeEventReceiver {
	d := event.NewSnowflakeEventDispatcher()
	d.AddSnowflakeEventListener(c15Render{})
	return d
}

var c15IceCount int64

func c15RunIce(r *vh.Run, c c15IceCase, viaCollect bool) {
	env := c15EnvOf(c)
	var servers []webrtc.ICEServer
	for _, u := range c.urls {
		servers = append(servers, webrtc.ICEServer{URLs: []string{u}})
	}
	stub := &c15StubRendezvous{kind: c.stub}
	defer stub.close()
	broker := &BrokerChannel{Rendezvous: stub, keepLocalAddresses: true, natType: "unknown"}
	caseLine := fmt.Sprintf("c15 connect 1 %s  [ice=%q stub=%s viaCollect=%v]", env, c.urls, c.stub, viaCollect)
	var ch chan string
	var peers *Peers
	// every other case goes through the constructors that take no event receiver (NewWebRTCDialer / NewWebRTCPeer),
	// as embedders of the library and older callers do
	plain := atomic.AddInt64(&c15IceCount, 1)%2 == 0
	caseLine += fmt.Sprintf(" [constructor without event receiver=%v]", plain)
	if viaCollect {
		dialer := NewWebRTCDialerWithEvents(broker, servers, 1, c15Renderer())
		if plain {
			dialer = NewWebRTCDialer(broker, servers, 1)
		}
		peers, _ = NewPeers(dialer)
		ch = c15Async(func() string {
			pe, err := peers.Collect()
			if err != nil {
				return "err"
			}
			pe.Close()
			return "ok"
		})
	} else {
		cfg := &webrtc.Configuration{ICEServers: servers}
		ch = c15Async(func() string {
			var pe *WebRTCPeer
			var err error
			if plain {
				pe, err = NewWebRTCPeer(cfg, broker)
			} else {
				pe, err = NewWebRTCPeerWithEvents(cfg, broker, c15Renderer())
			}
			if err != nil {
				if pe != nil {
					return "err-with-peer"
				}
				return "err"
			}
			pe.Close()
			return "ok"
		})
	}
	real, _ := c15Wait(ch, 60*time.Second)
	model := r.Model(fmt.Sprintf("c15 connect 1 %s", env))
	r.Case(fmt.Sprintf("ice/%s/%s/stub=%s/viaCollect=%v", c.name, env, c.stub, viaCollect), caseLine, true)
	r.Compare("connect", caseLine, real, model)
	switch real {
	case "panic":
		if env == "pcFail" {
			r.OracleFail("bad-ice-config-panics", caseLine, real,
				"an unusable ICE configuration must be reported as an error; peer construction panicked (nil *PeerConnection used before the error check in connect)")
		} else {
			r.OracleFail("peer-construction-panics/"+env, caseLine, real, "a failed attempt to obtain a peer must be an error, it panicked")
		}
	case "blocked":
		r.OracleFail("peer-construction-hangs/"+env, caseLine, real, "peer construction did not return within 60 s")
	case "err-with-peer":
		r.OracleFail("failed-construction-returns-peer", caseLine, real, "NewWebRTCPeerWithEvents returned both a peer and an error")
	}
	if viaCollect {
		// the pool must still be usable: the lock is free, End returns, nothing is held
		eo, _ := c15Wait(c15Async(func() string { peers.End(); return "ok" }), 5*time.Second)
		if eo != "ok" {
			r.OracleFail("end-blocked-after-failed-collect", caseLine, eo, "End() after a failed Collect() must return")
		}
	}
}

// pion can connect two local peers (needs a non-loopback interface).
func c15PionSelfTest() bool {
	stub := &c15StubRendezvous{kind: "live"}
	defer stub.close()
	broker := &BrokerChannel{Rendezvous: stub, keepLocalAddresses: true, natType: "unknown"}
	ch := c15Async(func() string {
		pe, err := NewWebRTCPeerWithEvents(&webrtc.Configuration{}, broker, nil)
		if err != nil {
			return "err"
		}
		pe.Close()
		return "ok"
	})
	o, _ := c15Wait(ch, 15*time.Second)
	return o == "ok"
}

// ---------------------------------------------------------------------------------------------

func TestVerifC15(t *testing.T) {
	log.SetOutput(io.Discard)
	r := vh.Start("C15")
	defer r.Finish()

	var wg sync.WaitGroup

	// 3. peer construction (slow cases run beside everything else)
	pionOK := c15PionSelfTest()
	if !pionOK {
		r.Skip("pion 2-peer self-test failed: the success path of NewWebRTCPeerWithEvents (stub=live) and the data-channel timeout path are not run")
	}
	iceCases := c15IceCases(r, pionOK)
	c15RunIce(r, iceCases[0], false) // the client binary's default: -ice "" (recorded first)
	for i, c := range iceCases {
		if i == 0 {
			c15RunIce(r, c, true)
			continue
		}
		wg.Add(1)
		go func(i int, c c15IceCase) {
			defer wg.Done()
			c15RunIce(r, c, false)
			if i%3 == 0 {
				c15RunIce(r, c, true)
			}
		}(i, c)
	}

	// the two smallest scripts first, so that they are the recorded replays of their classes
	scripts := c15FixedScripts()
	c15CheckScript(r, scripts[0])()
	c15CheckScript(r, scripts[len(scripts)-3])()

	// 2. templates
	wg.Add(1)
	go func() {
		defer wg.Done()
		for _, max := range []int{1, 2, 3} {
			for pre := 0; pre < max; pre++ {
				for rep := 0; rep < r.N(2, 10); rep++ {
					c15EndDuringCatch(r, max, pre, true)
				}
				c15EndDuringCatch(r, max, pre, false)
			}
		}
		for rep := 0; rep < r.N(10, 100); rep++ {
			max := 1 + rep%3
			c15ConcurrentEnd(r, max, rep%(max+1))
		}
		c15ConnectLoop(r, false)
		c15ConnectLoop(r, true)
		c15DialCloseTwice(r, nil)
		c15DialCloseTwice(r, []string{""}) // the client binary's default -ice value
		c15DialCloseTwice(r, []string{"   "})
		c15StaleQueueRace(r)
		c15CloseDuringRendezvous(r)
		c15DialClose(r, nil, "session")
		c15DialClose(r, nil, "stream")
		c15DialClose(r, nil, "silent-broker")
		c15DialCloseTwice(r, []string{"stun:127.0.0.1:1", ""}) // trailing comma
	}()

	// 1. sequential scripts
	for i := 0; i < r.N(250, 6000); i++ {
		max, ops, cs := c15GenScript(r.Rng)
		scripts = append(scripts, c15Script{max, ops, cs, "gen"})
	}
	emit := make([]func(), len(scripts))
	work := make(chan int)
	for w := 0; w < 16; w++ {
		wg.Add(1)
		go func() {
			defer wg.Done()
			for i := range work {
				emit[i] = c15CheckScript(r, scripts[i])
			}
		}()
	}
	for i := range scripts {
		if i == 0 || i == len(c15FixedScripts())-3 {
			emit[i] = func() {}
			continue
		}
		work <- i
	}
	close(work)
	wg.Wait()
	for _, f := range emit {
		f()
	}
}
