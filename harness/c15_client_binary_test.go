//go:build verif

package main

// C15 harness, client binary (virtual file in /repo/client): the real client binary is built and run as a
// managed pluggable transport (goptlib environment), a SOCKS5 connection with pt arguments is opened by
// hand, and the property's binary-level observations are judged:
//   * liveness: with an unreachable broker and unusable ICE configurations (the default -ice "", blank
//     entries, a trailing comma, garbage; on the command line and as the SOCKS ice= argument) the process
//     keeps running — a failed attempt to obtain a peer never terminates it;
//   * shutdown: after SIGTERM (or stdin close with TOR_PT_EXIT_ON_STDIN_CLOSE=1) the process exits within a
//     bound, also while tor still holds a SOCKS connection open and a rendezvous attempt is in flight.
// Oracle-only (no model): the Lean model of C15 covers the Peers pool; this is the glue around it.

import (
	"bufio"
	"fmt"
	"io"
	"net"
	"os"
	"os/exec"
	"path/filepath"
	"strings"
	"sync"
	"syscall"
	"testing"
	"time"

	vh "git.torproject.org/pluggable-transports/snowflake.git/v2/common/zzverif"
)

type c15bProc struct {
	cmd    *exec.Cmd
	stdin  io.WriteCloser
	socks  string
	exited chan struct{}
	err    error
}

func c15bStart(bin, stateDir string, args []string, stdinClose bool) (*c15bProc, error) {
	cmd := exec.Command(bin, args...)
	cmd.Env = append(os.Environ(), "TOR_PT_MANAGED_TRANSPORT_VER=1", "TOR_PT_CLIENT_TRANSPORTS=snowflake", "TOR_PT_STATE_LOCATION="+stateDir)
	if stdinClose {
		cmd.Env = append(cmd.Env, "TOR_PT_EXIT_ON_STDIN_CLOSE=1")
	}
	stdin, err := cmd.StdinPipe()
	if err != nil {
		return nil, err
	}
	stdout, err := cmd.StdoutPipe()
	if err != nil {
		return nil, err
	}
	cmd.Stderr = io.Discard
	if err := cmd.Start(); err != nil {
		return nil, err
	}
	p := &c15bProc{cmd: cmd, stdin: stdin, exited: make(chan struct{})}
	addr := make(chan string, 1)
	go func() {
		sc := bufio.NewScanner(stdout)
		for sc.Scan() {
			f := strings.Fields(sc.Text())
			if len(f) >= 4 && f[0] == "CMETHOD" && f[1] == "snowflake" {
				select {
				case addr <- f[3]:
				default:
				}
			}
		}
	}()
	go func() { p.err = cmd.Wait(); close(p.exited) }()
	select {
	case p.socks = <-addr:
		return p, nil
	case <-p.exited:
		return nil, fmt.Errorf("client binary exited during start-up: %v", p.err)
	case <-time.After(20 * time.Second):
		cmd.Process.Kill()
		return nil, fmt.Errorf("client binary did not announce its SOCKS listener")
	}
}

func (p *c15bProc) alive() bool {
	select {
	case <-p.exited:
		return false
	default:
		return true
	}
}

// c15bSocks performs the SOCKS5 handshake with pt arguments in the username/password fields and returns the
// connection after the CONNECT reply (the client grants before it dials).
func c15bSocks(addr, ptArgs string) (net.Conn, error) {
	c, err := net.DialTimeout("tcp", addr, 5*time.Second)
	if err != nil {
		return nil, err
	}
	c.SetDeadline(time.Now().Add(15 * time.Second))
	rd := func(n int) ([]byte, error) {
		b := make([]byte, n)
		_, err := io.ReadFull(c, b)
		return b, err
	}
	if ptArgs == "" {
		c.Write([]byte{5, 1, 0})
		if b, err := rd(2); err != nil || b[1] != 0 {
			c.Close()
			return nil, fmt.Errorf("socks method: %v %v", b, err)
		}
	} else {
		c.Write([]byte{5, 1, 2})
		if b, err := rd(2); err != nil || b[1] != 2 {
			c.Close()
			return nil, fmt.Errorf("socks method: %v %v", b, err)
		}
		u := ptArgs
		pw := "\x00"
		if len(u) > 255 {
			u, pw = ptArgs[:255], ptArgs[255:]
		}
		msg := append([]byte{1, byte(len(u))}, u...)
		msg = append(append(msg, byte(len(pw))), pw...)
		c.Write(msg)
		if b, err := rd(2); err != nil || b[1] != 0 {
			c.Close()
			return nil, fmt.Errorf("socks auth: %v %v", b, err)
		}
	}
	c.Write([]byte{5, 1, 0, 1, 192, 0, 2, 9, 0, 80})
	b, err := rd(10)
	if err != nil {
		c.Close()
		return nil, fmt.Errorf("socks connect reply: %v", err)
	}
	c.SetDeadline(time.Time{})
	if b[1] != 0 {
		c.Close()
		return nil, fmt.Errorf("socks connect rejected: reply %d", b[1])
	}
	return c, nil
}

type c15bCase struct {
	name       string
	blackHole  bool    // the broker accepts the connection and the request and never answers
	iceFlag    *string // nil: no -ice flag at all (the default)
	ptArgs     string
	holdSocks  bool   // tor still holds the SOCKS connection when the shutdown is requested
	shutdownBy string // "sigterm" | "stdin"
}

func TestVerifC15Binary(t *testing.T) {
	r := vh.Start("C15")
	defer r.Finish()
	cache := filepath.Join(os.Getenv("VERIF_DIR"), ".cache")
	if os.Getenv("VERIF_DIR") == "" {
		cache = os.TempDir()
	}
	bin := filepath.Join(cache, fmt.Sprintf("client-%d.bin", os.Getpid()))
	build := exec.Command("go", "build", "-modfile="+filepath.Join(cache, "repo.go.mod"), "-ldflags=-checklinkname=0", "-o", bin, ".")
	if out, err := build.CombinedOutput(); err != nil {
		t.Fatalf("cannot build the client binary: %v\n%s", err, out)
	}
	defer os.Remove(bin)
	stateDir := filepath.Join(cache, fmt.Sprintf("c15-pt-state-%d", os.Getpid()))
	os.MkdirAll(stateDir, 0o755)
	defer os.RemoveAll(stateDir)

	s := func(x string) *string { return &x }
	cases := []c15bCase{
		{"default-ice/socks-held/sigterm", false, nil, "", true, "sigterm"},
		{"default-ice/socks-closed/sigterm", false, nil, "", false, "sigterm"},
		{"default-ice/socks-held/stdin-close", false, nil, "", true, "stdin"},
		{"blank-ice-flag/socks-held/sigterm", false, s("   "), "", true, "sigterm"},
		{"trailing-comma-ice-flag/socks-held/sigterm", false, s("stun:127.0.0.1:1,"), "", true, "sigterm"},
		{"leading-and-inner-blank-ice-entries/socks-held/sigterm", false, s(",stun:127.0.0.1:1, ,stun:127.0.0.1:2"), "", true, "sigterm"},
		{"garbage-ice-flag/socks-closed/sigterm", false, s("foo"), "", false, "sigterm"},
		{"socks-arg-ice-blank/socks-held/sigterm", false, nil, "ice= , ", true, "sigterm"},
		{"socks-arg-ice-empty/socks-held/stdin-close", false, nil, "ice=", true, "stdin"},
		{"socks-arg-max-invalid/sigterm", false, nil, "max=x", false, "sigterm"},
		{"no-socks-connection/sigterm", false, nil, "-", false, "sigterm"},
		// a broker that takes the request and never answers: the attempt in flight ends at the response-header
		// timeout of the broker transport (15 s), so shutdown is still bounded
		{"silent-broker/no-ice-servers/socks-held/sigterm", true, s(" "), "", true, "sigterm"},
		{"silent-broker/no-ice-servers/socks-closed/stdin-close", true, s(" "), "", false, "stdin"},
	}
	// the silent broker: accepts, reads, never writes
	hole, herr := net.Listen("tcp", "127.0.0.1:0")
	if herr == nil {
		defer hole.Close()
		go func() {
			for {
				c, err := hole.Accept()
				if err != nil {
					return
				}
				go func() { io.Copy(io.Discard, c); c.Close() }()
			}
		}()
	}
	var wg sync.WaitGroup
	for _, c := range cases {
		wg.Add(1)
		go func(c c15bCase) {
			defer wg.Done()
			args := []string{"-url", "http://127.0.0.1:1/"}
			if c.blackHole {
				if herr != nil {
					r.Note("client binary %s: no listener for the silent broker: %v", c.name, herr)
					return
				}
				args = []string{"-url", "http://" + hole.Addr().String() + "/"}
			}
			if c.iceFlag != nil {
				args = append(args, "-ice", *c.iceFlag)
			}
			line := fmt.Sprintf("client binary %q, SOCKS args %q, SOCKS held at shutdown %v, shutdown by %s", args, c.ptArgs, c.holdSocks, c.shutdownBy)
			p, err := c15bStart(bin, stateDir, args, c.shutdownBy == "stdin")
			if err != nil {
				r.OracleFail("client-binary-does-not-start", line, err.Error(), "the client must come up as a managed transport")
				return
			}
			defer p.cmd.Process.Kill()
			var conn net.Conn
			if c.ptArgs != "-" {
				conn, err = c15bSocks(p.socks, c.ptArgs)
				if err != nil && !strings.Contains(c.name, "invalid") {
					r.Note("client binary %s: SOCKS handshake: %v", c.name, err)
				}
			}
			// rendezvous attempts fail (unreachable broker / unusable ICE configuration); the process must live on
			time.Sleep(2500 * time.Millisecond)
			r.Case("binary/"+c.name, line, true)
			if !p.alive() {
				r.OracleFail("client-process-dies", line, fmt.Sprintf("exited: %v", p.err),
					"a failed attempt to obtain a peer (unusable ICE configuration, unreachable broker) must never terminate the client process")
				return
			}
			if conn != nil && !c.holdSocks {
				conn.Close()
				time.Sleep(300 * time.Millisecond)
			}
			t0 := time.Now()
			if c.shutdownBy == "stdin" {
				p.stdin.Close()
			} else {
				p.cmd.Process.Signal(syscall.SIGTERM)
			}
			select {
			case <-p.exited:
			case <-time.After(25 * time.Second):
				r.OracleFail("client-binary-does-not-shut-down", line, fmt.Sprintf("still running %v after the shutdown request", time.Since(t0).Round(time.Second)),
					"closing down must complete in bounded time (at most one rendezvous attempt in flight), also while a SOCKS connection is still open")
			}
			if conn != nil {
				conn.Close()
			}
		}(c)
	}
	wg.Wait()
}
