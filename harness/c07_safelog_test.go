//go:build verif

package safelog

// C07 correspondence + oracle harness (virtual file in common/safelog via -overlay).
//
//   correspondence: real regexp / safelog.Scrub / LogScrubber  vs  sfdriver (Lean model of regexp's
//                   leftmost-first matching, ReplaceAll loop, Scrub and the writer)
//   oracle:         executable restatement of the property on the real output, independent of Lean:
//                   no substring of an emitted line that net.ParseIP accepts (optionally with :port) stands
//                   between line boundaries / whitespace / punctuation other than ':'; only complete
//                   lines are emitted; the output does not depend on the splitting into writes.

import (
	"bytes"
	"encoding/hex"
	"errors"
	"fmt"
	"math/rand"
	"net"
	"os"
	"os/exec"
	"path/filepath"
	"regexp"
	"regexp/syntax"
	"runtime"
	"sort"
	"strings"
	"sync"
	"testing"
	"unicode"
	"unicode/utf8"

	vh "git.torproject.org/pluggable-transports/snowflake.git/v2/common/zzverif"
)

// ---------------------------------------------------------------------------------------------
// regexp/syntax tree -> wire form understood by sfdriver, and -> the Lean term the extractor emits

type rxUnsupported string

func c07Nullable(re *syntax.Regexp) bool {
	switch re.Op {
	case syntax.OpLiteral:
		return len(re.Rune) == 0
	case syntax.OpCharClass, syntax.OpAnyCharNotNL, syntax.OpAnyChar, syntax.OpNoMatch:
		return false
	case syntax.OpCapture, syntax.OpPlus:
		return c07Nullable(re.Sub[0])
	case syntax.OpConcat:
		for _, s := range re.Sub {
			if !c07Nullable(s) {
				return false
			}
		}
		return true
	case syntax.OpAlternate:
		for _, s := range re.Sub {
			if c07Nullable(s) {
				return true
			}
		}
		return false
	case syntax.OpRepeat:
		return re.Min == 0 || c07Nullable(re.Sub[0])
	}
	return true
}

func c07Wire(re *syntax.Regexp, out *[]string) {
	emit := func(s string) { *out = append(*out, s) }
	nary := func(op string, subs []*syntax.Regexp) {
		for i := 0; i < len(subs)-1; i++ {
			emit(op)
			c07Wire(subs[i], out)
		}
		c07Wire(subs[len(subs)-1], out)
	}
	cls := func(r []rune) string {
		var p []string
		for i := 0; i+1 < len(r); i += 2 {
			p = append(p, fmt.Sprintf("%d-%d", r[i], r[i+1]))
		}
		return "c:" + strings.Join(p, ";")
	}
	switch re.Op {
	case syntax.OpEmptyMatch:
		emit("e")
	case syntax.OpLiteral:
		if re.Flags&syntax.FoldCase != 0 {
			panic(rxUnsupported("foldcase"))
		}
		for i, r := range re.Rune {
			if i < len(re.Rune)-1 {
				emit("k")
			}
			emit(fmt.Sprintf("c:%d-%d", r, r))
		}
		if len(re.Rune) == 0 {
			emit("e")
		}
	case syntax.OpCharClass:
		emit(cls(re.Rune))
	case syntax.OpAnyCharNotNL:
		emit("c:0-9;11-1114111")
	case syntax.OpAnyChar:
		emit("c:0-1114111")
	case syntax.OpCapture:
		emit(fmt.Sprintf("p:%d", re.Cap))
		c07Wire(re.Sub[0], out)
	case syntax.OpConcat:
		nary("k", re.Sub)
	case syntax.OpAlternate:
		nary("a", re.Sub)
	case syntax.OpQuest:
		emit("a")
		if re.Flags&syntax.NonGreedy != 0 {
			emit("e")
			c07Wire(re.Sub[0], out)
		} else {
			c07Wire(re.Sub[0], out)
			emit("e")
		}
	case syntax.OpStar:
		if re.Flags&syntax.NonGreedy != 0 {
			panic(rxUnsupported("non-greedy star"))
		}
		emit("s")
		c07Wire(re.Sub[0], out)
	case syntax.OpPlus:
		if re.Flags&syntax.NonGreedy != 0 {
			panic(rxUnsupported("non-greedy plus"))
		}
		if c07Nullable(re.Sub[0]) {
			panic(rxUnsupported("plus over nullable body"))
		}
		emit("k")
		c07Wire(re.Sub[0], out)
		emit("s")
		c07Wire(re.Sub[0], out)
	case syntax.OpRepeat:
		if re.Max < 0 || re.Flags&syntax.NonGreedy != 0 {
			panic(rxUnsupported("unbounded or non-greedy repeat"))
		}
		emit(fmt.Sprintf("r:%d:%d", re.Min, re.Max-re.Min))
		c07Wire(re.Sub[0], out)
	case syntax.OpBeginText:
		emit("bot")
	case syntax.OpEndText:
		emit("eot")
	case syntax.OpBeginLine:
		emit("bol")
	case syntax.OpEndLine:
		emit("eol")
	default:
		panic(rxUnsupported(re.Op.String()))
	}
}

// wireOf parses like regexp.MustCompile does (Perl flags) and serialises; ok=false if outside the subset.
func wireOf(pattern string) (w string, ok bool) {
	defer func() {
		if r := recover(); r != nil {
			if _, is := r.(rxUnsupported); is {
				ok = false
				return
			}
			panic(r)
		}
	}()
	re, err := syntax.Parse(pattern, syntax.Perl)
	if err != nil {
		return "", false
	}
	var out []string
	c07Wire(re, &out)
	return strings.Join(out, ","), true
}

// leanOf renders the term exactly as /verif/extract/regex.go does (used to check that the generated
// module the theorems are about carries the same expression the driver is given).
func leanOf(re *syntax.Regexp) string {
	cls := func(r []rune) string {
		var p []string
		for i := 0; i+1 < len(r); i += 2 {
			p = append(p, fmt.Sprintf("(%d,%d)", r[i], r[i+1]))
		}
		return "(.cls [" + strings.Join(p, ",") + "])"
	}
	fold := func(op string, subs []*syntax.Regexp) string {
		s := leanOf(subs[len(subs)-1])
		for i := len(subs) - 2; i >= 0; i-- {
			s = "(" + op + " " + leanOf(subs[i]) + " " + s + ")"
		}
		return s
	}
	switch re.Op {
	case syntax.OpEmptyMatch:
		return ".eps"
	case syntax.OpLiteral:
		s := ".eps"
		for i := len(re.Rune) - 1; i >= 0; i-- {
			c := fmt.Sprintf("(.cls [(%d,%d)])", re.Rune[i], re.Rune[i])
			if s == ".eps" {
				s = c
			} else {
				s = "(.cat " + c + " " + s + ")"
			}
		}
		return s
	case syntax.OpCharClass:
		return cls(re.Rune)
	case syntax.OpCapture:
		return fmt.Sprintf("(.cap %d %s)", re.Cap, leanOf(re.Sub[0]))
	case syntax.OpConcat:
		return fold(".cat", re.Sub)
	case syntax.OpAlternate:
		return fold(".alt", re.Sub)
	case syntax.OpQuest:
		if re.Flags&syntax.NonGreedy != 0 {
			return "(.alt .eps " + leanOf(re.Sub[0]) + ")"
		}
		return "(.alt " + leanOf(re.Sub[0]) + " .eps)"
	case syntax.OpStar:
		return "(.star " + leanOf(re.Sub[0]) + ")"
	case syntax.OpPlus:
		return "(.cat " + leanOf(re.Sub[0]) + " (.star " + leanOf(re.Sub[0]) + "))"
	case syntax.OpAnyCharNotNL:
		return "(.cls [(0,9),(11,1114111)])"
	case syntax.OpAnyChar:
		return "(.cls [(0,1114111)])"
	case syntax.OpRepeat:
		return fmt.Sprintf("(Snowflake.Rx.rep %s %d %d)", leanOf(re.Sub[0]), re.Min, re.Max-re.Min)
	case syntax.OpBeginText:
		return ".bot"
	case syntax.OpEndText:
		return ".eot"
	case syntax.OpBeginLine:
		return ".bol"
	case syntax.OpEndLine:
		return ".eol"
	}
	return "<" + re.Op.String() + ">"
}

// ---------------------------------------------------------------------------------------------
// generators

type gen struct{ rng *rand.Rand }

func (g *gen) pick(xs []string) string { return xs[g.rng.Intn(len(xs))] }

func (g *gen) hexg() string {
	n := g.rng.Intn(4) + 1
	if g.rng.Intn(6) == 0 {
		n = 4
	}
	var sb strings.Builder
	for i := 0; i < n; i++ {
		sb.WriteByte("0123456789abcdefABCDEF"[g.rng.Intn(22)])
	}
	return sb.String()
}

func (g *gen) octet() int {
	switch g.rng.Intn(6) {
	case 0:
		return []int{0, 1, 9, 10, 99, 100, 199, 200, 249, 250, 255}[g.rng.Intn(11)]
	case 1:
		return g.rng.Intn(10)
	}
	return g.rng.Intn(256)
}

func (g *gen) v4() string {
	return fmt.Sprintf("%d.%d.%d.%d", g.octet(), g.octet(), g.octet(), g.octet())
}

func (g *gen) groups(n int) []string {
	out := make([]string, n)
	for i := range out {
		out[i] = g.hexg()
	}
	return out
}

// v6 returns an IPv6 spelling and its family tag. Families cover every group count 0..8 on either side
// of "::" (valid ones have L+R <= 7; the others are near misses that ParseIP rejects).
func (g *gen) v6() (string, string) {
	switch g.rng.Intn(9) {
	case 0:
		return strings.Join(g.groups(8), ":"), "v6full"
	case 1, 2:
		l := g.rng.Intn(8)
		r := g.rng.Intn(8 - l)
		return strings.Join(g.groups(l), ":") + "::" + strings.Join(g.groups(r), ":"), fmt.Sprintf("v6c%d+%d", l, r)
	case 3: // boundary: all 7 groups on one side, or 6+1 …
		l := g.rng.Intn(8)
		r := 7 - l
		return strings.Join(g.groups(l), ":") + "::" + strings.Join(g.groups(r), ":"), fmt.Sprintf("v6c%d+%d", l, r)
	case 4: // near miss: too many groups
		l := g.rng.Intn(9)
		r := g.rng.Intn(9)
		return strings.Join(g.groups(l), ":") + "::" + strings.Join(g.groups(r), ":"), "v6any"
	case 5:
		return "::ffff:" + g.v4(), "v6mapped"
	case 6: // compressed with embedded IPv4: L + R + 2 <= 7
		l := g.rng.Intn(6)
		r := g.rng.Intn(6 - l)
		s := strings.Join(g.groups(l), ":") + "::"
		if r > 0 {
			s += strings.Join(g.groups(r), ":") + ":"
		}
		return s + g.v4(), fmt.Sprintf("v6c4in6/%d+%d", l, r)
	case 7:
		return strings.Join(g.groups(6), ":") + ":" + g.v4(), "v6full4in6"
	default: // what net.IP.String prints for a random address with random zero runs
		ip := make(net.IP, 16)
		g.rng.Read(ip)
		for k := g.rng.Intn(3); k > 0; k-- {
			a := g.rng.Intn(8)
			b := a + g.rng.Intn(8-a) + 1
			for i := 2 * a; i < 2*b; i++ {
				ip[i] = 0
			}
		}
		if g.rng.Intn(4) == 0 {
			ip[g.rng.Intn(16)] &= 0x0f
		}
		return ip.String(), "v6printed"
	}
}

var c07Ports = []int{0, 1, 9, 22, 80, 443, 999, 1000, 8080, 9999, 10000, 38310, 58344, 65535}

func (g *gen) port() int {
	if g.rng.Intn(2) == 0 {
		return c07Ports[g.rng.Intn(len(c07Ports))]
	}
	return g.rng.Intn(65536)
}

// addr returns one address spelling (bare / bracketed / with port) and its family tag.
func (g *gen) addr() (string, string) {
	var a, fam string
	isv6 := g.rng.Intn(5) >= 2
	if isv6 {
		a, fam = g.v6()
	} else {
		a, fam = g.v4(), "v4"
	}
	switch g.rng.Intn(6) {
	case 0:
		if isv6 {
			return "[" + a + "]", fam + "/br"
		}
	case 1, 2:
		if isv6 {
			return fmt.Sprintf("[%s]:%d", a, g.port()), fam + "/brport"
		}
		return fmt.Sprintf("%s:%d", a, g.port()), fam + "/port"
	case 3:
		if isv6 && g.rng.Intn(4) == 0 {
			return a + "%eth0", fam + "/zone"
		}
	}
	return a, fam
}

// delimiters by class; the class name goes into the case distribution.
var c07Delims = map[string][]string{
	"space":      {" "},
	"ws":         {"\t", "\r", "\f", "\v", "  ", " \t"},
	"punct":      {",", ";", "=", "(", ")", "\"", "'", "/", "-", ".", "%", "|", "<", ">", "{", "}", "!", "?", "#", "@", "&", "*", "+", "~", "^", "`", "$", "\\"},
	"bracket":    {"[", "]"},
	"colon":      {":"},
	"colonspace": {": "},
	"underscore": {"_"},
	"multibyte":  {"→", "é", "“", "\u00a0", "\u2028", "日"},
	"invalid":    {"\xff", "\xc3", "\xe2\x82", "\x80"},
	"two":        {", ", "; ", ") (", "\" \"", " - ", "=\""},
	"none":       {""},
}
var c07DelimClasses = []string{"space", "space", "space", "ws", "punct", "punct", "punct", "bracket", "colon", "colonspace", "underscore", "multibyte", "invalid", "two", "two", "none"}

func (g *gen) delim() (string, string) {
	c := g.pick(c07DelimClasses)
	return g.pick(c07Delims[c]), c
}

var c07Words = []string{"x", "from", "to", "2019/05/08 15:37:31", "15:37:31", "33:B6:FA:F6:94:CA:74:61", "a=fingerprint:sha-256",
	"http://", "https://", "wss://", "/path?q=1", "port:80", "id=7", ":", "::", "1.2.3", "12:34", "v1.2", "error:", "client", "addr=",
	"http: TLS handshake error from", "dial tcp", "read udp", "->", "connection refused", "2021-01-02T03:04:05Z", "deadbeef", "[", "]", ""}

type piece struct {
	s      string
	isAddr bool
}

// line builds one log-like line (without the newline) as pieces, so that failures can be shrunk.
func (g *gen) line(tags map[string]bool) []piece {
	var ps []piece
	n := g.rng.Intn(5)
	if g.rng.Intn(8) == 0 {
		n = 0
	}
	if g.rng.Intn(3) > 0 {
		ps = append(ps, piece{s: g.pick(c07Words)})
		d, c := g.delim()
		ps = append(ps, piece{s: d})
		tags["d:"+c] = true
	}
	for i := 0; i < n; i++ {
		a, fam := g.addr()
		tags["a:"+fam] = true
		ps = append(ps, piece{s: a, isAddr: true})
		d, c := g.delim()
		tags["d:"+c] = true
		ps = append(ps, piece{s: d})
		if g.rng.Intn(3) == 0 {
			ps = append(ps, piece{s: g.pick(c07Words)})
			if g.rng.Intn(2) == 0 {
				d, c := g.delim()
				tags["d:"+c] = true
				ps = append(ps, piece{s: d})
			}
		}
	}
	if g.rng.Intn(2) == 0 {
		a, fam := g.addr()
		tags["a:"+fam] = true
		ps = append(ps, piece{s: a, isAddr: true})
	}
	return ps
}

func joinPieces(ps []piece) string {
	var sb strings.Builder
	for _, p := range ps {
		sb.WriteString(p.s)
	}
	return sb.String()
}

// ---------------------------------------------------------------------------------------------
// the oracle: exposed addresses in emitted text

// boundary: whitespace or punctuation other than ':' (and other than '_', which is an identifier character).
func c07Boundary(r rune, size int) bool {
	if r == utf8.RuneError && size <= 1 {
		return false // an invalid byte is neither whitespace nor punctuation
	}
	if r == ':' || r == '_' {
		return false
	}
	return unicode.IsSpace(r) || unicode.IsPunct(r) || unicode.IsSymbol(r)
}

func allDigits(s string) bool {
	if s == "" {
		return false
	}
	for i := 0; i < len(s); i++ {
		if s[i] < '0' || s[i] > '9' {
			return false
		}
	}
	return true
}

// isAddrForm: a textual address as Go's net package prints or accepts it: an IP, or IPv4:port.
// (Bracketed forms need no case of their own: '[' and ']' are boundaries, so the inner IP is a candidate itself.)
func isAddrForm(s string) bool {
	if len(s) < 2 || len(s) > 52 {
		return false
	}
	if net.ParseIP(s) != nil {
		return true
	}
	if i := strings.LastIndexByte(s, ':'); i > 0 && strings.Count(s, ":") == 1 {
		if ip := net.ParseIP(s[:i]); ip != nil && allDigits(s[i+1:]) && len(s)-i-1 <= 5 {
			return true
		}
	}
	return false
}

type leak struct {
	start, end int
	text       string
}

// exposed lists the address forms standing between boundaries in b (for each start the longest one).
func exposed(b []byte) []leak {
	var out []leak
	// boundary positions: ends[j] = true if an address may end at byte j, starts likewise
	n := len(b)
	starts := make([]bool, n+1)
	ends := make([]bool, n+1)
	starts[0], ends[n] = true, true
	for i := 0; i < n; {
		r, sz := utf8.DecodeRune(b[i:])
		if c07Boundary(r, sz) {
			ends[i] = true
			starts[i+sz] = true
		}
		i += sz
	}
	lastEnd := -1
	for i := 0; i < n; i++ {
		if !starts[i] {
			continue
		}
		c := b[i]
		if !(c == ':' || (c >= '0' && c <= '9') || (c >= 'a' && c <= 'f') || (c >= 'A' && c <= 'F')) {
			continue
		}
		best := -1
		for j := i + 2; j <= n && j <= i+52; j++ {
			if ends[j] && isAddrForm(string(b[i:j])) {
				best = j
			}
		}
		if best > 0 && best > lastEnd {
			out = append(out, leak{i, best, string(b[i:best])})
			lastEnd = best
		}
	}
	return out
}

// groupsBesideDcolon: for an IP spelling containing "::", the number of 16-bit groups written left and right
// of it (an embedded IPv4 counts as two).
func groupsBesideDcolon(s string) (l, r int, ok bool) {
	i := strings.Index(s, "::")
	if i < 0 {
		return 0, 0, false
	}
	count := func(p string) int {
		if p == "" {
			return 0
		}
		n := 0
		for _, g := range strings.Split(p, ":") {
			if strings.Contains(g, ".") {
				n += 2
			} else {
				n++
			}
		}
		return n
	}
	return count(s[:i]), count(s[i+2:]), true
}

// leakKey names the class of a surviving address from the output around it and the shape of the block it
// was found in.  The keys are stable: known findings are matched by them.
func leakKey(out []byte, lk leak, multiLineBlock bool) string {
	host := lk.text
	if i := strings.LastIndexByte(host, ':'); i > 0 && strings.Count(host, ":") == 1 {
		host = host[:i]
	}
	before := out[:lk.start]
	// Does the survivor disappear when the real Scrub is applied again (to a fixpoint)?  Then the pattern
	// covers it and it survived only because an earlier match in the same pass had consumed its delimiter.
	fix := out
	for i := 0; i < 64; i++ {
		nx, st := safeScrub(fix)
		if st != "ok" || bytes.Equal(nx, fix) {
			break
		}
		fix = nx
	}
	still := false
	for _, l2 := range exposed(fix) {
		if l2.text == lk.text {
			still = true
		}
	}
	if !still {
		if multiLineBlock && len(before) > 0 && before[len(before)-1] == '\n' {
			return "leak:consecutive-lines-one-write"
		}
		return "leak:adjacent-shared-delimiter"
	}
	if l, r, ok := groupsBesideDcolon(host); ok && (l == 7 || r == 7) {
		return "leak:ipv6-7-groups-beside-dcolon"
	}
	fam := "v4"
	if strings.Contains(host, ":") {
		fam = "v6"
		if strings.Contains(host, ".") {
			fam = "v6with4"
		}
	}
	if host != lk.text {
		fam += "+port"
	}
	return "leak:" + fam
}

// leakContext describes the runes around a surviving address (for the finding's detail text).
func leakContext(out []byte, lk leak) string {
	before := out[:lk.start]
	lc, rc := "bol", "eol"
	if len(before) > 0 {
		r, _ := utf8.DecodeLastRune(before)
		lc = runeClass(r)
	}
	if lk.end < len(out) {
		r, _ := utf8.DecodeRune(out[lk.end:])
		rc = runeClass(r)
	}
	return lc + " | " + rc
}

func runeClass(r rune) string {
	switch {
	case r == '\n':
		return "newline"
	case unicode.IsSpace(r):
		return "space"
	case r == '[' || r == ']':
		return "bracket"
	case r < 0x80:
		return "punct"
	}
	return "multibyte"
}

// ---------------------------------------------------------------------------------------------

type emissionRecorder struct {
	mu  sync.Mutex
	ems [][]byte
}

// A scrubber that keeps emitting (a loop that no longer ends) must end the run with a verdict, not with the
// machine's memory: past two million emissions of one recorder the sink fails, and past three million it panics.
func (e *emissionRecorder) Write(p []byte) (int, error) {
	e.mu.Lock()
	defer e.mu.Unlock()
	if len(e.ems) > 3000000 {
		panic("c07: the scrubber wrote more than 3000000 times to one sink (emission loop that does not end)")
	}
	if len(e.ems) > 2000000 {
		e.ems = append(e.ems, nil)
		return 0, errors.New("c07: sink flooded")
	}
	e.ems = append(e.ems, append([]byte(nil), p...))
	return len(p), nil
}

func hexList(bs [][]byte) string {
	if len(bs) == 0 {
		return "."
	}
	var parts []string
	for _, b := range bs {
		parts = append(parts, vh.Hex(b))
	}
	return strings.Join(parts, ",")
}

func safeScrub(b []byte) (out []byte, status string) {
	defer func() {
		if x := recover(); x != nil {
			status = fmt.Sprintf("panic:%v", x)
		}
	}()
	return Scrub(append([]byte(nil), b...)), "ok"
}

// runWrites feeds the chunks to a fresh LogScrubber; canonical outcome "<emissions> <pending>".
var c07ReuseBuffer bool

func runWrites(chunks [][]byte) (canon string, ems [][]byte, pending []byte, bad string) {
	rec := &emissionRecorder{}
	ls := &LogScrubber{Output: rec}
	defer func() {
		if x := recover(); x != nil {
			canon = fmt.Sprintf("panic:%v", x)
			bad = canon
		}
	}()
	// callers such as io.CopyBuffer reuse one buffer for every Write and overwrite it afterwards: every
	// other run does the same (the io.Writer contract forbids Write to retain the slice)
	var shared []byte
	if c07ReuseBuffer {
		m := 0
		for _, c := range chunks {
			if len(c) > m {
				m = len(c)
			}
		}
		shared = make([]byte, m, m+64)
	}
	for _, c := range chunks {
		arg := append([]byte(nil), c...)
		if c07ReuseBuffer {
			arg = shared[:len(c)]
			copy(arg, c)
		}
		n, err := ls.Write(arg)
		if err != nil || n != len(c) {
			bad = fmt.Sprintf("Write(%d bytes) = %d, %v", len(c), n, err)
		}
		if c07ReuseBuffer {
			full := shared[:cap(shared)]
			for i := range full {
				full[i] = '#'
			}
		}
	}
	return hexList(rec.ems) + " " + vh.Hex(ls.buffer), rec.ems, append([]byte(nil), ls.buffer...), bad
}

func splitRandom(rng *rand.Rand, stream []byte) [][]byte {
	var chunks [][]byte
	rest := stream
	mode := rng.Intn(4)
	for len(rest) > 0 {
		var n int
		switch mode {
		case 0: // byte by byte-ish
			n = 1 + rng.Intn(3)
		case 1: // at newlines, sometimes just before/after
			i := bytes.IndexByte(rest, '\n')
			if i < 0 {
				n = len(rest)
			} else {
				n = i + rng.Intn(3)
				if n == 0 {
					n = 1
				}
			}
		default:
			n = 1 + rng.Intn(len(rest))
		}
		if n > len(rest) {
			n = len(rest)
		}
		if rng.Intn(10) == 0 {
			chunks = append(chunks, nil) // empty write
		}
		chunks = append(chunks, rest[:n])
		rest = rest[n:]
	}
	return chunks
}

func linesOf(stream []byte) (lines [][]byte, tail []byte) {
	for {
		i := bytes.IndexByte(stream, '\n')
		if i < 0 {
			return lines, stream
		}
		lines = append(lines, stream[:i+1])
		stream = stream[i+1:]
	}
}

func concat(bs [][]byte) []byte {
	var out []byte
	for _, b := range bs {
		out = append(out, b...)
	}
	return out
}

type c07 struct {
	r        *vh.Run
	fullW    string
	addrW    string
	wireOK   bool
	fx       string // which variant of the model the real code is compared with: "1" = repaired (default)
	reported map[string]int
	differs  map[string]int
	longLine int            // writerCase: >0 = prepend a long line whose address straddles this offset
	tagCount map[string]int // address families ("a:…") and delimiter classes ("d:…") the Scrub cases contained
}

func (c *c07) modelScrub(b []byte) string {
	return c.r.Model("c07 scrub " + c.fx + " " + c.fullW + " " + c.addrW + " " + vh.Hex(b))
}

// compare records at most five disagreements per key (the rest is counted in a note), so that a systematic
// disagreement cannot crowd the oracle's findings out of the result file.
func (c *c07) compare(key, caseLine, real, model string) {
	if real == model {
		return
	}
	c.differs[key]++
	if c.differs[key] <= 5 {
		c.r.Compare(key, caseLine, real, model)
	}
}

// checkLeaks runs the exposed-address oracle on emitted text.  shrink (optional) re-runs the producer on a
// smaller input and says whether the same key still fires.
func (c *c07) checkLeaks(caseLine string, out []byte, multi bool, shrink func(key string) (string, []byte)) bool {
	lks := exposed(out)
	seen := map[string]bool{}
	for _, lk := range lks {
		key := leakKey(out, lk, multi)
		if seen[key] {
			continue
		}
		seen[key] = true
		c.reported[key]++
		if c.reported[key] > 3 {
			continue
		}
		line, shown, what := caseLine, out, lk.text
		if shrink != nil {
			if s, o := shrink(key); s != "" {
				line, shown = s, o
				for _, l2 := range exposed(o) {
					if leakKey(o, l2, bytes.Count(o, []byte("\n")) > 1) == key {
						what = l2.text
						break
					}
				}
			}
		}
		c.r.OracleFail(key, line, fmt.Sprintf("%q", shown), fmt.Sprintf("address %q survives in the emitted text (bounded by a line boundary, whitespace or punctuation other than ':'; left | right neighbour in the original case: %s)", what, leakContext(out, lk)))
	}
	return len(lks) == 0
}

func hasKey(out []byte, multi bool, key string) bool {
	for _, lk := range exposed(out) {
		if leakKey(out, lk, multi) == key {
			return true
		}
	}
	return false
}

// shrinkPieces greedily drops pieces (and shortens to the addresses that matter) while pred still holds.
func shrinkPieces(lines [][]piece, pred func([][]piece) bool) [][]piece {
	cur := lines
	for changed := true; changed; {
		changed = false
		for li := 0; li < len(cur); li++ {
			if len(cur) > 1 { // drop a whole line
				cand := append(append([][]piece{}, cur[:li]...), cur[li+1:]...)
				if pred(cand) {
					cur, changed = cand, true
					li--
					continue
				}
			}
			for pi := 0; pi < len(cur[li]); pi++ {
				nl := append(append([]piece{}, cur[li][:pi]...), cur[li][pi+1:]...)
				cand := append([][]piece{}, cur...)
				cand[li] = nl
				if pred(cand) {
					cur, changed = cand, true
					pi--
				}
			}
		}
	}
	return cur
}

func blockOf(lines [][]piece) []byte {
	var sb strings.Builder
	for _, l := range lines {
		sb.WriteString(joinPieces(l))
		sb.WriteByte('\n')
	}
	return []byte(sb.String())
}

func sortedTags(m map[string]bool, prefix string) string {
	var ks []string
	for k := range m {
		if strings.HasPrefix(k, prefix) {
			ks = append(ks, k[len(prefix):])
		}
	}
	sort.Strings(ks)
	if len(ks) > 3 {
		ks = ks[:3]
	}
	return strings.Join(ks, "+")
}

// TestC07ChildScrubFirst: a process whose very first use of the package is a direct Scrub call (as the event
// String() methods do), before any LogScrubber was written to.
func TestC07ChildScrubFirst(t *testing.T) {
	in := os.Getenv("VERIF_C07_CHILD")
	if in == "" {
		t.Skip("child of TestVerifC07 only")
	}
	b, _ := hex.DecodeString(in)
	fmt.Printf("C07CHILD %s\n", hex.EncodeToString(Scrub(b)))
}

func c07ScrubFirst(c *c07) {
	for _, text := range []string{"dial tcp 203.0.113.7:443: i/o timeout\n", "peer [2001:db8::1]:9001 and 10.1.2.3, done\n", "no address here\n"} {
		cmd := exec.Command(os.Args[0], "-test.run", "^TestC07ChildScrubFirst$", "-test.count=1")
		cmd.Env = append(os.Environ(), "VERIF_C07_CHILD="+hex.EncodeToString([]byte(text)), "VERIF_OUT=")
		outb, _ := cmd.CombinedOutput()
		got := "process-failed"
		for _, l := range strings.Split(string(outb), "\n") {
			if strings.HasPrefix(l, "C07CHILD ") {
				got = strings.TrimPrefix(l, "C07CHILD ")
			}
		}
		line := "c07 scrub (first call of a fresh process) " + vh.Hex([]byte(text))
		c.r.Case("scrub/first-call-of-a-process", line, true)
		(&LogScrubber{Output: &bytes.Buffer{}}).Write([]byte("warm-up 192.0.2.1\n")) // this process has used the writer
		want := hex.EncodeToString(Scrub([]byte(text)))
		if got != want {
			c.r.OracleFail("scrub-depends-on-earlier-use", line, fmt.Sprintf("fresh process: %q, this process (after the writer was used): %q", got, want),
				"Scrub must remove addresses whether or not a LogScrubber has been written to before")
		}
	}
}

func TestVerifC07(t *testing.T) {
	r := vh.Start("C07")
	defer r.Finish()
	rng := r.Rng
	g := &gen{rng: rng}
	c := &c07{r: r, reported: map[string]int{}, differs: map[string]int{}, tagCount: map[string]int{}, fx: "1"}
	if v := os.Getenv("VERIF_C07_FX"); v == "0" {
		c.fx = "0" // development aid: compare with the model of the originally pinned behaviour
	}

	{
		ig := &gen{rng: rand.New(rand.NewSource(r.Seed + 77))}
		var cs []string
		for i := 0; i < r.N(200, 2000); i++ {
			tags := map[string]bool{}
			var sb strings.Builder
			for k := 0; k < 1+ig.rng.Intn(3); k++ {
				sb.WriteString(joinPieces(ig.line(tags)))
				sb.WriteString("\n")
			}
			cs = append(cs, sb.String())
		}
		r.Independent("scrubber", "a LogScrubber of its own", cs, func(text string) string {
			var out bytes.Buffer
			ls := &LogScrubber{Output: &out}
			half := len(text) / 2
			ls.Write([]byte(text[:half]))
			runtime.Gosched()
			ls.Write([]byte(text[half:]))
			return vh.Hex(out.Bytes()) + " | Scrub: " + vh.Hex(Scrub([]byte(text)))
		})
	}
	c07ScrubFirst(c)
	var ok1, ok2 bool
	c.fullW, ok1 = wireOf(fullAddrPattern)
	c.addrW, ok2 = wireOf(addressPattern)
	c.wireOK = ok1 && ok2
	if !c.wireOK {
		r.Compare("pattern-outside-subset", "wire(fullAddrPattern/addressPattern)", "unsupported", "supported")
	}

	// 0. the generated Lean module the theorems are about carries the same two expressions
	if dir := os.Getenv("VERIF_DIR"); dir != "" {
		if src, err := os.ReadFile(filepath.Join(dir, "lean/Snowflake/Generated/Safelog.lean")); err == nil {
			for name, pat := range map[string]string{"fullAddrPattern": fullAddrPattern, "addressPattern": addressPattern} {
				re, _ := syntax.Parse(pat, syntax.Perl)
				want := "def " + name + " : Snowflake.Rx := " + leanOf(re) + "\n"
				r.Case("generated-term", name, true)
				if !bytes.Contains(src, []byte(want)) {
					r.Compare("generated-regex", "Generated/Safelog.lean "+name, "differs from regexp/syntax.Parse of the source constant", "equal")
				}
			}
			// the compiled variables use exactly these constants
			if scrubberPatterns[0].String() != fullAddrPattern || len(scrubberPatterns) != 1 || addressRegexp.String() != addressPattern {
				r.Compare("compiled-vars", "scrubberPatterns/addressRegexp", "differ from fullAddrPattern/addressPattern", "equal")
			}
		} else {
			r.Skip("Generated/Safelog.lean not readable: " + err.Error())
		}
	}

	// 1. the matcher model against regexp: the sub-patterns of safelog and random small patterns
	c.matcherCases(g)
	if !c.wireOK {
		return
	}

	// 2. Scrub on fixed and generated single lines
	fixed := []string{
		"1.2.3.4 5.6.7.8\n", "a 1.2.3.4,5.6.7.8\n", "1.2.3.4\n5.6.7.8\n", "x 1.2.3.4 5.6.7.8", "1.2.3.4: 5.6.7.8\n",
		"::2:3:4:5:6:7:abcd\n", "1:2:3:4:5:6:7::\n", "[::2:3:4:5:6:7:abcd]:443\n", "1.2.3.4.5.6.7.8\n", "[1.2.3.4]:80 [::1]:80\n",
		"", "\n", "::", ":: ::\n", "1.2.3.4", "\xff1.2.3.4\xff5.6.7.8\xff\n", "é1.2.3.4é5.6.7.8\n", "1.2.3.4\r\n5.6.7.8\r\n",
		"http: TLS handshake error from 129.97.208.23:38310: \n", "(1:2:3:4:c:d:e:f) {1:2:3:4:c:d:e:f}\n",
		"2019/05/08 15:37:31 starting\n", "a=fingerprint:sha-256 33:B6:FA:F6:94:CA:74:61:45:4A:D2:1F:2C:2F:75:8A:D9:EB:23:34:B2:30:E9:1B:2A:A6:A9:E0:44:72:CC:74\n",
		"fe80::1%eth0 1.2.3.4%x\n", "[scrubbed] 1.2.3.4 [scrubbed]\n", "1.2.3.4:80:1.2.3.4\n", "1.2.3.4_5.6.7.8 1.2.3.4:x\n",
	}
	for _, s := range fixed {
		c.scrubCase("fixed", nil, [][]piece{{{s: strings.TrimSuffix(s, "\n")}}}, strings.HasSuffix(s, "\n"), map[string]bool{})
	}
	for i := 0; i < r.N(2500, 60000); i++ {
		tags := map[string]bool{}
		ln := g.line(tags)
		c.scrubCase("line", g, [][]piece{ln}, rng.Intn(8) > 0, tags)
	}
	// multi-line blocks through Scrub directly
	for i := 0; i < r.N(600, 15000); i++ {
		tags := map[string]bool{}
		k := 2 + rng.Intn(3)
		var ls [][]piece
		for j := 0; j < k; j++ {
			ls = append(ls, g.line(tags))
		}
		c.scrubCase("block", g, ls, true, tags)
	}

	// 3. the writer: random splittings of multi-line streams
	for _, fx := range [][]string{{"1.2.3.4", "5.6.7.8"}, {"a 1.2.3.4", "[::1]:80 b"}, {"", "1.2.3.4:80", ""}, {"x"}} {
		var ls [][]piece
		for _, l := range fx {
			ls = append(ls, []piece{{s: l, isAddr: true}})
		}
		for j := 0; j < 4; j++ {
			c.writerCase(g, ls)
		}
	}
	for i := 0; i < r.N(36, 600); i++ {
		c.longLine = []int{512, 1024, 2048, 4096, 8192, 16384, 32768, 65536, 131072, 262144, 1 << 20}[i%11]
		if c.longLine > 16384 && i >= 22 && !r.Thorough() {
			continue // the largest sizes twice each in the quick tier
		}
		c.writerCase(g, nil)
	}
	c.longLine = 0
	for i := 0; i < r.N(700, 20000); i++ {
		c.writerCase(g, nil)
	}

	// 4. concurrent writers, one complete line (or a block of complete lines) per Write
	for i := 0; i < r.N(25, 400); i++ {
		c.concurrentCase(g)
	}
	var tagKeys []string
	for k := range c.tagCount {
		tagKeys = append(tagKeys, k)
	}
	sort.Strings(tagKeys)
	var tagParts []string
	for _, k := range tagKeys {
		tagParts = append(tagParts, fmt.Sprintf("%s=%d", k, c.tagCount[k]))
	}
	r.Note("Scrub cases by address family (a:) and delimiter class (d:): %s", strings.Join(tagParts, " "))
	for k, n := range c.reported {
		if n > 3 {
			r.Note("oracle key %s fired %d times (first 3 recorded)", k, n)
		}
	}
	for k, n := range c.differs {
		if n > 5 {
			r.Note("correspondence key %s disagreed %d times (first 5 recorded)", k, n)
		}
	}
}

// scrubCase: one call of the real Scrub on the block made of the given lines.
func (c *c07) scrubCase(class string, g *gen, lines [][]piece, finalNL bool, tags map[string]bool) {
	in := blockOf(lines)
	if !finalNL {
		in = in[:len(in)-1]
	}
	multi := bytes.Count(in, []byte("\n")) > 1 || (bytes.Count(in, []byte("\n")) == 1 && !bytes.HasSuffix(in, []byte("\n")))
	out, st := safeScrub(in)
	caseLine := "c07 scrub " + vh.Hex(in)
	nAddr := 0
	for _, l := range lines {
		for _, p := range l {
			if p.isAddr {
				nAddr++
			}
		}
	}
	cl := fmt.Sprintf("scrub/%s/addrs%d", class, imin(nAddr, 4))
	if class == "line" && nAddr > 0 {
		cl += "/" + sortedTags(tags, "d:")
	}
	c.r.Case(cl, caseLine, nAddr > 0)
	for k := range tags {
		if strings.HasPrefix(k, "a:") || strings.HasPrefix(k, "d:") {
			c.tagCount[k]++
		}
	}
	real := vh.Hex(out)
	if st != "ok" {
		real = st
		c.r.OracleFail("scrub-panic", caseLine, st, "Scrub must not panic")
	}
	c.compare("scrub", caseLine, real, c.modelScrub(in))
	if st != "ok" {
		return
	}
	c.checkLeaks(caseLine, out, multi, func(key string) (string, []byte) {
		if g == nil {
			return "", nil
		}
		small := shrinkPieces(lines, func(cand [][]piece) bool {
			b := blockOf(cand)
			if !finalNL {
				b = b[:len(b)-1]
			}
			o, s := safeScrub(b)
			m := bytes.Count(b, []byte("\n")) > 1
			return s == "ok" && hasKey(o, m, key)
		})
		b := blockOf(small)
		if !finalNL {
			b = b[:len(b)-1]
		}
		o, _ := safeScrub(b)
		return fmt.Sprintf("c07 scrub %s   (= Scrub(%q))", vh.Hex(b), b), o
	})
	// idempotence is implied by the property (nothing left to replace): a second Scrub changes nothing
	if out2, st2 := safeScrub(out); st2 == "ok" && !bytes.Equal(out, out2) && len(exposed(out)) == 0 {
		c.reported["scrub-not-stable"]++
		if c.reported["scrub-not-stable"] <= 3 {
			c.r.Note("Scrub output still matched the pattern (no exposed address by the oracle): %q -> %q", out, out2)
		}
	}
}

// writerCase: one stream (given lines, or generated ones when ls == nil) under a random splitting.
func (c *c07) writerCase(g *gen, ls [][]piece) {
	rng := g.rng
	tags := map[string]bool{}
	k := len(ls)
	if ls == nil {
		k = 1 + rng.Intn(4)
		for j := 0; j < k; j++ {
			ls = append(ls, g.line(tags))
		}
	}
	stream := blockOf(ls)
	if rng.Intn(3) == 0 { // unterminated tail
		stream = append(stream, joinPieces(g.line(tags))...)
	}
	if rng.Intn(10) == 0 {
		stream = bytes.ReplaceAll(stream, []byte("\n"), []byte("\r\n"))
	}
	chunks := splitRandom(rng, stream)
	if c.longLine > 0 {
		// a long line arriving in several writes: filler up to just before a power-of-two offset, then an address
		// that straddles it, the write boundary within a few bytes of that offset (inside the address)
		T := c.longLine
		a, _ := g.addr()
		d := 1 + rng.Intn(len(a)+3)
		filler := bytes.Repeat([]byte("lorem ipsum "), T/12+2)[:T-d-6]
		long := append(append(append([]byte{}, filler...), " peer "+a+" gone\n"...), stream...)
		cut := T + rng.Intn(9) - 4
		if cut < 1 {
			cut = 1
		}
		if cut > len(long)-1 {
			cut = len(long) - 1
		}
		stream = long
		chunks = nil
		if rng.Intn(2) == 0 {
			chunks = append(chunks, long[:cut/3], long[cut/3:cut])
		} else {
			chunks = append(chunks, long[:cut])
		}
		rest := long[cut:]
		n := 1 + rng.Intn(len(rest))
		chunks = append(chunks, rest[:n])
		if n < len(rest) {
			chunks = append(chunks, splitRandom(rng, rest[n:])...)
		}
		k++
	}
	c07ReuseBuffer = rng.Intn(2) == 0
	canon, ems, pending, bad := runWrites(chunks)
	reused := c07ReuseBuffer
	c07ReuseBuffer = false
	caseLine := "c07 write " + hexList(chunks)
	if reused {
		caseLine += "   (caller reuses and overwrites its buffer after each Write)"
	}
	c.r.Case(fmt.Sprintf("write/lines%d/chunks%d", imin(k, 4), imin(len(chunks), 6)), caseLine, true)
	if bad != "" {
		c.r.OracleFail("write-result", caseLine, bad, "Write must return len(b), nil and must not panic")
		return
	}
	c.compare("write", caseLine, canon, c.r.Model("c07 write "+c.fx+" "+c.fullW+" "+c.addrW+" "+hexList(chunks)))
	// only complete lines
	lines, tail := linesOf(stream)
	for _, e := range ems {
		if len(e) == 0 || e[len(e)-1] != '\n' {
			c.r.OracleFail("incomplete-line-emitted", caseLine, canon, "every emission must end in a newline")
			break
		}
	}
	if !bytes.Equal(pending, tail) {
		c.r.OracleFail("pending-not-tail", caseLine, canon, "exactly the bytes after the last newline must be held back")
	}
	out := concat(ems)
	if bytes.Count(out, []byte("\n")) != len(lines) {
		c.r.OracleFail("line-count", caseLine, canon, "as many lines must be emitted as were completed")
	}
	// independence from the splitting: one write per line, and everything in one write
	var perLine [][]byte
	for _, l := range lines {
		perLine = append(perLine, l)
	}
	perLine = append(perLine, tail)
	_, ems2, _, _ := runWrites(perLine)
	_, ems3, _, _ := runWrites([][]byte{stream})
	out2, out3 := concat(ems2), concat(ems3)
	if !bytes.Equal(out, out2) || !bytes.Equal(out, out3) {
		c.reported["split-dependence"]++
		if c.reported["split-dependence"] <= 3 {
			// shrink over lines/pieces with the two canonical splittings
			small := shrinkPieces(ls, func(cand [][]piece) bool {
				s := blockOf(cand)
				l2, _ := linesOf(s)
				_, a, _, _ := runWrites(l2)
				_, b, _, _ := runWrites([][]byte{s})
				return !bytes.Equal(concat(a), concat(b))
			})
			s := blockOf(small)
			l2, _ := linesOf(s)
			_, a, _, _ := runWrites(l2)
			_, b, _, _ := runWrites([][]byte{s})
			line, real := caseLine, fmt.Sprintf("this splitting %q / line by line %q / one write %q", out, out2, out3)
			if !bytes.Equal(concat(a), concat(b)) {
				line = fmt.Sprintf("c07 write %s  vs  c07 write %s   (stream %q)", hexList(l2), vh.Hex(s), s)
				real = fmt.Sprintf("line by line %q / one write %q", concat(a), concat(b))
			}
			c.r.OracleFail("split-dependence", line, real, "the emitted text must not depend on how the stream is split into writes")
		}
	}
	multi := false
	for _, e := range ems {
		if bytes.Count(e, []byte("\n")) > 1 {
			multi = true
		}
	}
	c.checkLeaks(caseLine, out, multi, func(key string) (string, []byte) {
		small := shrinkPieces(ls, func(cand [][]piece) bool {
			s := blockOf(cand)
			_, e, _, _ := runWrites([][]byte{s})
			return hasKey(concat(e), bytes.Count(s, []byte("\n")) > 1, key)
		})
		s := blockOf(small)
		if _, e, _, _ := runWrites([][]byte{s}); hasKey(concat(e), bytes.Count(s, []byte("\n")) > 1, key) {
			return fmt.Sprintf("c07 write %s   (= one Write(%q))", vh.Hex(s), s), concat(e)
		}
		return "", nil
	})
}

func (c *c07) concurrentCase(g *gen) {
	rng := g.rng
	nw := 2 + rng.Intn(4)
	rec := &emissionRecorder{}
	ls := &LogScrubber{Output: rec}
	var all [][]byte
	per := make([][][]byte, nw)
	tags := map[string]bool{}
	for w := 0; w < nw; w++ {
		for j := 0; j < 3+rng.Intn(6); j++ {
			var blk []byte
			for q := 0; q < 1+rng.Intn(2)*rng.Intn(3); q++ {
				l := []byte(strings.ReplaceAll(joinPieces(g.line(tags)), "\n", " ") + "\n")
				all = append(all, l)
				blk = append(blk, l...)
			}
			per[w] = append(per[w], blk)
		}
	}
	var wg sync.WaitGroup
	var badMu sync.Mutex
	bad := ""
	for w := 0; w < nw; w++ {
		wg.Add(1)
		go func(blks [][]byte) {
			defer wg.Done()
			defer func() {
				if x := recover(); x != nil {
					badMu.Lock()
					bad = fmt.Sprintf("panic:%v", x)
					badMu.Unlock()
				}
			}()
			for _, b := range blks {
				if n, err := ls.Write(b); n != len(b) || err != nil {
					badMu.Lock()
					bad = fmt.Sprintf("Write = %d, %v", n, err)
					badMu.Unlock()
				}
			}
		}(per[w])
	}
	wg.Wait()
	var flat [][]byte
	for _, p := range per {
		flat = append(flat, p...)
	}
	caseLine := "c07 concurrent " + hexList(flat)
	c.r.Case(fmt.Sprintf("concurrent/writers%d", nw), caseLine, true)
	if bad != "" {
		c.r.OracleFail("write-result", caseLine, bad, "Write must return len(b), nil and must not panic")
		return
	}
	out := concat(rec.ems)
	got, _ := linesOf(out)
	// model: the same lines, any order, as a multiset
	reply := c.r.Model("c07 write " + c.fx + " " + c.fullW + " " + c.addrW + " " + hexList(all))
	var want []string
	if f := strings.Fields(reply); len(f) == 2 && f[0] != "." {
		for _, h := range strings.Split(f[0], ",") {
			want = append(want, h)
		}
	}
	var gotS []string
	for _, l := range got {
		gotS = append(gotS, vh.Hex(l))
	}
	sort.Strings(want)
	sort.Strings(gotS)
	c.compare("concurrent-multiset", caseLine, strings.Join(gotS, ","), strings.Join(want, ","))
	if len(ls.buffer) != 0 {
		c.r.OracleFail("pending-not-tail", caseLine, vh.Hex(ls.buffer), "complete lines only were written; nothing may stay pending")
	}
	// oracle: multiset of emitted lines = multiset of the real Scrub of each line alone
	var alone []string
	for _, l := range all {
		o, _ := safeScrub(l)
		alone = append(alone, vh.Hex(o))
	}
	sort.Strings(alone)
	if strings.Join(alone, ",") != strings.Join(gotS, ",") {
		c.reported["split-dependence"]++
		if c.reported["split-dependence"] <= 3 {
			c.r.OracleFail("split-dependence", caseLine, fmt.Sprintf("%q", out), "with concurrent writers of complete lines the emitted lines must be the scrubbed input lines (as a multiset)")
		}
	}
	multi := false
	for _, e := range rec.ems {
		if bytes.Count(e, []byte("\n")) > 1 {
			multi = true
		}
	}
	c.checkLeaks(caseLine, out, multi, nil)
}

// ---------------------------------------------------------------------------------------------
// matcher validation

var c07Atoms = []string{"a", "b", "1", ":", `\.`, `\d`, `\s`, `\w`, `[ab]`, `[^a]`, `[^\w:]`, `[0-9a-f]`, ".", `\n`, "é", `[^\n]`}

func (g *gen) pattern(depth int) string {
	rng := g.rng
	if depth <= 0 || rng.Intn(4) == 0 {
		return g.pick(c07Atoms)
	}
	switch rng.Intn(12) {
	case 0, 1, 2:
		return g.pattern(depth-1) + g.pattern(depth-1)
	case 3, 4:
		return "(" + g.pattern(depth-1) + "|" + g.pattern(depth-1) + ")"
	case 5:
		return "(" + g.pattern(depth-1) + ")?"
	case 6:
		return "(" + g.pattern(depth-1) + ")*"
	case 7:
		return "(" + g.pattern(depth-1) + ")+"
	case 8:
		m := rng.Intn(3)
		return fmt.Sprintf("(%s){%d,%d}", g.pattern(depth-1), m, m+rng.Intn(3))
	case 9:
		return g.pick([]string{"^", "$", "(?m:^)", "(?m:$)", "(^|a)", "(b|$)"}) + g.pattern(depth-1)
	case 10:
		return g.pattern(depth-1) + g.pick([]string{"$", "(?m:$)", "^", "(?:x|)"})
	default:
		return "(?:" + g.pattern(depth-1) + "|)"
	}
}

func (g *gen) text() []byte {
	rng := g.rng
	alphabet := []string{"a", "b", "1", ":", ".", " ", "\n", "é", "\xff", "x", "\t", "→", "9", "f", "\xe2\x82"}
	n := rng.Intn(14)
	var sb strings.Builder
	for i := 0; i < n; i++ {
		sb.WriteString(alphabet[rng.Intn(len(alphabet))])
	}
	return []byte(sb.String())
}

func (c *c07) matcherCases(g *gen) {
	r := c.r
	rng := g.rng
	check := func(class, pat string, re *regexp.Regexp, w string, text []byte) {
		loc := re.FindIndex(text)
		real := "none"
		if loc != nil {
			real = fmt.Sprintf("%d %d", loc[0], loc[1])
		}
		line := fmt.Sprintf("c07 find %q %s", pat, vh.Hex(text))
		r.Case("rx/"+class+"/find/"+map[bool]string{true: "hit", false: "miss"}[loc != nil], line, true)
		c.compare("rx-find", line, real, r.Model("c07 find "+w+" "+vh.Hex(text)))
		rep := re.ReplaceAll(text, []byte("<>"))
		line2 := fmt.Sprintf("c07 repl %q %s", pat, vh.Hex(text))
		c.compare("rx-replaceall", line2, vh.Hex(rep), r.Model("c07 repl "+w+" "+vh.Hex(text)+" 3c3e"))
	}
	// the safelog patterns and their parts on address-like texts
	parts := map[string]string{"ipv4Address": ipv4Address, "ipv6Address": ipv6Address, "ipv6Compressed": ipv6Compressed,
		"ipv6Full": ipv6Full, "optionalPort": optionalPort, "addressPattern": addressPattern, "fullAddrPattern": fullAddrPattern}
	var names []string
	for k := range parts {
		names = append(names, k)
	}
	sort.Strings(names)
	for _, name := range names {
		pat := parts[name]
		w, ok := wireOf(pat)
		if !ok {
			r.Compare("pattern-outside-subset", name, "unsupported", "supported")
			continue
		}
		re := regexp.MustCompile(pat)
		for i := 0; i < r.N(120, 3000); i++ {
			var text []byte
			switch rng.Intn(4) {
			case 0:
				a, _ := g.addr()
				text = []byte(a)
			case 1:
				a, _ := g.addr()
				d1, _ := g.delim()
				d2, _ := g.delim()
				text = []byte(d1 + a + d2)
			default:
				text = []byte(joinPieces(g.line(map[string]bool{})))
			}
			check("safelog-"+name, name, re, w, text)
		}
	}
	// random small patterns over a small alphabet (anchors, classes, repeats, alternation, empty matches)
	for i := 0; i < r.N(1500, 40000); i++ {
		pat := g.pattern(3)
		w, ok := wireOf(pat)
		if !ok {
			continue
		}
		re, err := regexp.Compile(pat)
		if err != nil {
			continue
		}
		for j := 0; j < 3; j++ {
			check("random", pat, re, w, g.text())
		}
	}
}

func imin(a, b int) int {
	if a < b {
		return a
	}
	return b
}
