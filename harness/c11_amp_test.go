//go:build verif

package amp

// C11 harness, package amp: EncodePath / DecodePath / CacheURL / domainPrefix* against the Lean model
// (sfdriver "c11 ...") and the property oracles (independent restatements).

import (
	"bytes"
	"crypto/sha256"
	"encoding/base32"
	"encoding/base64"
	"errors"
	"fmt"
	"math/rand"
	"net/url"
	"path"
	"runtime"
	"strings"
	"sync"
	"sync/atomic"
	"testing"

	vh "git.torproject.org/pluggable-transports/snowflake.git/v2/common/zzverif"
	"golang.org/x/net/idna"
)

func c11PathErr(err error) string {
	var ci base64.CorruptInputError
	switch {
	case err == nil:
		return "nil"
	case errors.As(err, &ci):
		return "corrupt"
	case err.Error() == "missing format indicator":
		return "missingIndicator"
	case err.Error() == "missing data":
		return "missingData"
	case strings.HasPrefix(err.Error(), "unknown format indicator"):
		return "unknownIndicator"
	}
	return "other:" + err.Error()
}

func c11DecodePath(p string) (line string, data []byte, err error) {
	defer func() {
		if x := recover(); x != nil {
			line = fmt.Sprintf("panic:%v", x)
			err = fmt.Errorf("panic")
		}
	}()
	data, err = DecodePath(p)
	if err != nil {
		cls := c11PathErr(err)
		if cls == "unknownIndicator" {
			cls = fmt.Sprintf("unknownIndicator:%d", p[0])
		}
		return "err " + cls, data, err
	}
	return "ok " + vh.Hex(data), data, nil
}

func c11Opt(s string, err error) string {
	if err != nil {
		return "!"
	}
	return vh.Hex([]byte(s))
}

func c11IsSimple(d string) bool {
	for i := 0; i < len(d); i++ {
		if d[i] >= 0x80 {
			return false
		}
	}
	for _, l := range strings.Split(d, ".") {
		if strings.HasPrefix(l, "xn--") {
			return false
		}
	}
	return true
}

func c11IsASCII(s string) bool {
	for i := 0; i < len(s); i++ {
		if s[i] >= 0x80 {
			return false
		}
	}
	return true
}

// the AMP "basic algorithm" restated for ASCII domains without punycode labels (steps 1 and 5 are the identity)
// c11SpecBasic: the five steps of the AMP cache URL format's basic algorithm, written down a second time over the
// idna library (decode, double the hyphens, dots to hyphens, the 0-...-0 wrap, encode).
func c11SpecBasic(d string) (string, error) {
	u, err := idna.ToUnicode(d)
	if err != nil {
		return "", err
	}
	return idna.ToASCII(c11SpecBasicASCII(u))
}

func c11SpecBasicASCII(d string) string {
	p := strings.ReplaceAll(d, "-", "--")
	p = strings.ReplaceAll(p, ".", "-")
	if len(p) >= 4 && p[2] == '-' && p[3] == '-' {
		p = "0-" + p + "-0"
	}
	return p
}

var c11Labels = []string{"example", "com", "a", "b-c", "en-us", "xn--bcher-kva", "xn--57hw060o", "xn--", "xn---", "xn--a!", "XN--abc", "x", "ab", "ab-", "a--b", "--", "-", "",
	"snowflake-broker", "torproject", "net", "bücher", "例え", "faß", "⚡\U0001f60a", "co.uk", "0", "1-2", strings.Repeat("a", 63), strings.Repeat("b", 64), strings.Repeat("c-", 20), "xn", "xn-", "ex--ample"}

func c11Domain(rng *rand.Rand) string {
	switch rng.Intn(12) {
	case 0:
		return []string{"", ".", "...", "snowflake-broker.torproject.net", "snowflake-broker.azureedge.net", "en-us.example.com", "example.com.", "::1", "192.0.2.1", "xn--", "a.xn--", "xn--a.b"}[rng.Intn(12)]
	case 1:
		b := make([]byte, rng.Intn(12))
		rng.Read(b)
		return string(b)
	case 2:
		// long: total > 63 after conversion
		var parts []string
		for i, n := 0, 3+rng.Intn(12); i < n; i++ {
			parts = append(parts, c11Labels[rng.Intn(len(c11Labels))])
		}
		return strings.Join(parts, ".")
	}
	var parts []string
	for i, n := 0, 1+rng.Intn(4); i < n; i++ {
		parts = append(parts, c11Labels[rng.Intn(len(c11Labels))])
	}
	return strings.Join(parts, ".")
}

func c11Hex(s string) string { return vh.Hex([]byte(s)) }

func c11Fields(fs ...string) string {
	parts := make([]string, len(fs))
	for i, f := range fs {
		parts[i] = c11Hex(f)
	}
	return strings.Join(parts, ",")
}

func c11CacheErr(err error) string {
	msg := err.Error()
	switch {
	case strings.HasPrefix(msg, "invalid content type"):
		return "contentType"
	case strings.HasPrefix(msg, "invalid scheme"):
		return "scheme"
	case strings.HasPrefix(msg, "publisher URL may not contain userinfo"):
		return "userinfo"
	case strings.HasPrefix(msg, "publisher URL port"):
		return "port"
	case strings.HasPrefix(msg, "invalid host"):
		return "host"
	case strings.HasPrefix(msg, "invalid URL escape"):
		return "unescape"
	case msg == "cache URL may not contain a query":
		return "cacheQuery"
	case msg == "cache URL may not contain a fragment":
		return "cacheFragment"
	}
	return "other:" + msg
}

func c11Normal(p string) bool { // "" or an absolute path of non-empty, non-dot segments without a trailing slash
	if p == "" {
		return true
	}
	if p[0] != '/' || strings.HasSuffix(p, "/") {
		return false
	}
	for _, s := range strings.Split(p[1:], "/") {
		if s == "" || s == "." || s == ".." {
			return false
		}
	}
	return true
}

func TestVerifC11Amp(t *testing.T) {
	r := vh.Start("C11")
	defer r.Finish()
	rng := r.Rng
	b64 := base64.RawURLEncoding.EncodeToString

	{
		irng := rand.New(rand.NewSource(r.Seed + 77))
		var cs []string
		for i := 0; i < r.N(300, 3000); i++ {
			d := make([]byte, irng.Intn(120))
			irng.Read(d)
			cs = append(cs, string(d))
		}
		r.Independent("path", "EncodePath / DecodePath", cs, func(c string) string {
			p := EncodePath([]byte(c))
			slash := strings.IndexByte(p, '/')
			d, err := DecodePath(p)
			runtime.Gosched()
			return fmt.Sprintf("data part %s | decoded %s %v", p[slash+1:], vh.Hex(d), err != nil)
		})
	}

	// ---------------------------------------------------------------- 0. decoded polls are values of their own
	// a decoded poll stays what it was while later polls are decoded (the broker handles many at once), in
	// sequence and from concurrent goroutines
	{
		type kept struct {
			want, got []byte
			p         string
		}
		var ks []kept
		for i := 0; i < r.N(40, 400); i++ {
			d := make([]byte, 1+rng.Intn(200))
			rng.Read(d)
			p := EncodePath(d)
			got, err := DecodePath(p)
			if err != nil {
				continue
			}
			ks = append(ks, kept{d, got, p})
		}
		for _, k := range ks {
			r.Case("decpath/kept-across-later-decodes", "decpath "+vh.Hex([]byte(k.p)), true)
			if !bytes.Equal(k.got, k.want) {
				r.OracleFail("decoded-poll-overwritten-by-later-decode", "decpath "+vh.Hex([]byte(k.p)), vh.Hex(k.got),
					"the bytes returned by DecodePath must stay the decoded poll; a later DecodePath call changed them")
				break
			}
		}
		var wg sync.WaitGroup
		var bad int32
		for g := 0; g < 8; g++ {
			wg.Add(1)
			seed := rng.Int63()
			go func(seed int64) {
				defer wg.Done()
				lr := rand.New(rand.NewSource(seed))
				for i := 0; i < 300; i++ {
					d := make([]byte, 1+lr.Intn(300))
					lr.Read(d)
					got, err := DecodePath(EncodePath(d))
					runtime.Gosched()
					if err != nil || !bytes.Equal(got, d) {
						atomic.AddInt32(&bad, 1)
					}
				}
			}(seed)
		}
		wg.Wait()
		r.Case("decpath/concurrent", "8 goroutines x 300 encode/decode round trips", true)
		if bad > 0 {
			r.OracleFail("concurrent-decodes-interfere", "8 goroutines x 300 encode/decode round trips", fmt.Sprintf("%d round trips returned other bytes", bad),
				"polls decoded at the same time must not affect each other")
		}
	}

	// ---------------------------------------------------------------- 1. EncodePath / DecodePath
	for i := 0; i < r.N(300, 5000); i++ {
		n := rng.Intn(40)
		if rng.Intn(10) == 0 {
			n = 1000 + rng.Intn(3000)
		}
		d := make([]byte, n)
		rng.Read(d)
		p := EncodePath(d)
		slash := strings.IndexByte(p, '/')
		okShape := len(p) > 0 && p[0] == '0' && slash == 13
		var pad []byte
		if okShape {
			var err error
			pad, err = base64.RawURLEncoding.DecodeString(p[1:slash])
			okShape = err == nil && len(pad) == 9 && !strings.ContainsAny(p[slash+1:], "/+=")
		}
		r.Case("encpath", fmt.Sprintf("encpath <%d bytes>", n), n > 0)
		if !okShape {
			r.OracleFail("encodepath-shape", "encpath "+vh.Hex(d), p, "EncodePath must give \"0\" + 12 base64url bytes + \"/\" + base64url(data) without further slashes")
			continue
		}
		line := fmt.Sprintf("c11 encpath %s %s", vh.Hex(pad), vh.Hex(d))
		r.Compare("encodepath", line, vh.Hex([]byte(p)), r.Model(line))
		if _, got, err := c11DecodePath(p); err != nil || !bytes.Equal(got, d) {
			r.OracleFail("path-roundtrip", "decpath "+vh.Hex([]byte(p)), fmt.Sprint(err), "DecodePath(EncodePath(d)) must be d")
		}
		// any padding, slashes included, in front of the final component
		for j := 0; j < 3; j++ {
			var pre []byte
			switch rng.Intn(4) {
			case 0:
				pre = make([]byte, rng.Intn(30))
				rng.Read(pre)
			case 1:
				alpha := []byte("/ab0/-_=//")
				pre = make([]byte, rng.Intn(20))
				for k := range pre {
					pre[k] = alpha[rng.Intn(len(alpha))]
				}
			case 2:
				pre = []byte(b64(d) + "/" + b64(d)) // looks like data
			default:
				pre = []byte(strings.Repeat("/", rng.Intn(5)))
			}
			p2 := "0" + string(pre) + "/" + b64(d)
			l2 := "c11 decpath " + vh.Hex([]byte(p2))
			got, data, err := c11DecodePath(p2)
			r.Case("decpath/padded", l2, true)
			r.Compare("decodepath", l2, got, r.Model(l2))
			if err != nil || !bytes.Equal(data, d) {
				r.OracleFail("path-roundtrip-any-padding", l2, got, "the data after the last slash must be returned whatever precedes it")
			}
		}
	}
	// malformed paths
	bad := []struct{ p, class string }{
		{"", "missingIndicator"}, {"0", "missingData"}, {"0abc", "missingData"}, {"1abc/YQ", "unknownIndicator"}, {"/0abc/YQ", "unknownIndicator"},
		{"abc/YQ", "unknownIndicator"}, {"0abc/YQ==", "corrupt"}, {"0abc/Y", "corrupt"}, {"0abc/YQ/!", "corrupt"}, {"0abc/a+b", "corrupt"},
		{"0abc/YQ\n", ""}, {"0/", ""}, {"0//", ""}, {"0abc/", ""}, {"\x000/YQ", "unknownIndicator"}, {"0abc/YWJj/", ""}, {"0abc/YR", ""},
	}
	for _, b := range bad {
		l := "c11 decpath " + vh.Hex([]byte(b.p))
		got, _, err := c11DecodePath(b.p)
		r.Case("decpath/malformed/"+strings.SplitN(got, " ", 2)[0], l, true)
		r.Compare("decodepath", l, got, r.Model(l))
		if b.class != "" && (err == nil || !strings.HasPrefix(got, "err "+b.class)) {
			r.OracleFail("path-errors/"+b.class, l, got, "this path must be rejected with "+b.class)
		}
	}
	for i := 0; i < r.N(600, 10000); i++ {
		alpha := []byte("0011/ab_-=YQ+\n.")
		if rng.Intn(4) == 0 {
			alpha = nil
		}
		p := make([]byte, rng.Intn(16))
		for k := range p {
			if alpha == nil {
				p[k] = byte(rng.Intn(256))
			} else {
				p[k] = alpha[rng.Intn(len(alpha))]
			}
		}
		l := "c11 decpath " + vh.Hex(p)
		got, _, err := c11DecodePath(string(p))
		r.Case("decpath/random/"+strings.SplitN(got, ":", 2)[0][:3], l, len(p) > 0)
		r.Compare("decodepath", l, got, r.Model(l))
		if strings.HasPrefix(got, "panic") {
			r.OracleFail("decodepath-panic", l, got, "DecodePath must not panic")
		}
		// the error classes of the property, evaluated on the real result
		switch {
		case len(p) == 0 && err == nil, len(p) > 0 && p[0] != '0' && err == nil, len(p) > 0 && p[0] == '0' && !bytes.Contains(p[1:], []byte("/")) && err == nil:
			r.OracleFail("path-errors/accepted", l, got, "empty path, wrong version and missing slash must be errors")
		}
	}

	// ---------------------------------------------------------------- 2. stdlib helpers the model re-implements
	for i := 0; i < r.N(600, 10000); i++ {
		alpha := []byte("/.ab%-~ :;,?@$&+=é\x00/../")
		s := make([]byte, rng.Intn(14))
		for k := range s {
			s[k] = alpha[rng.Intn(len(alpha))]
		}
		l := "c11 pathescape " + vh.Hex(s)
		r.Case("stdlib/pathescape", l, len(s) > 0)
		r.Compare("url.PathEscape", l, vh.Hex([]byte(url.PathEscape(string(s)))), r.Model(l))
		l = "c11 clean " + vh.Hex(s)
		r.Case("stdlib/clean", l, len(s) > 0)
		r.Compare("path.Clean", l, vh.Hex([]byte(path.Clean(string(s)))), r.Model(l))
		var elems []string
		for j, n := 0, rng.Intn(5); j < n; j++ {
			e := make([]byte, rng.Intn(6))
			for k := range e {
				e[k] = alpha[rng.Intn(8)]
			}
			elems = append(elems, string(e))
		}
		if len(elems) > 0 {
			l = "c11 join " + c11Fields(elems...)
			r.Case("stdlib/join", l, true)
			r.Compare("path.Join", l, vh.Hex([]byte(path.Join(elems...))), r.Model(l))
		}
	}

	// ---------------------------------------------------------------- 3. domain prefix
	// Punycode labels in every position, between plain labels (fixed: the random generator rarely builds a domain whose
	// other labels are all valid)
	fixedDomains := []string{"snowflake.xn--bcher-kva.example", "a.xn--57hw060o.com", "www.xn--bcher-kva.xn--57hw060o", "x.y.xn--bcher-kva",
		"xn--bcher-kva.example", "xn--bcher-kva.xn--bcher-kva.example", "en-us.xn--bcher-kva.example.com", "a.b.c.xn--57hw060o",
		"snowflake-broker.xn--bcher-kva.net", "XN--BCHER-KVA.example", "www.XN--bcher-kva.example", "a.xn--bcher-kva"}
	for i := 0; i < len(fixedDomains)+r.N(800, 15000); i++ {
		d := ""
		if i < len(fixedDomains) {
			d = fixedDomains[i]
		} else {
			d = c11Domain(rng)
		}
		digest := sha256.Sum256([]byte(d))
		basic, berr := domainPrefixBasic(d)
		fb := domainPrefixFallback(d)
		pfx := domainPrefix(d)
		uni, asc := "?", "?"
		simple := c11IsSimple(d)
		cls := "simple"
		if !simple {
			cls = "idna"
			u, uerr := idna.ToUnicode(d)
			uni = c11Opt(u, uerr)
			if uerr == nil {
				mid := r.Model("c11 mid " + c11Hex(u))
				mb, ok := c11Unhex(mid)
				if !ok {
					r.Compare("prefix-mid", "c11 mid "+c11Hex(u), "hex", mid)
					continue
				}
				if !c11IsASCII(string(mb)) {
					a, aerr := idna.ToASCII(string(mb))
					asc = c11Opt(a, aerr)
				}
			}
		} else {
			// the model claims ToASCII is the identity on what step 4 produces for such domains: check it on the real idna
			mid := c11SpecBasicASCII(d)
			if a, aerr := idna.ToASCII(mid); aerr != nil || a != mid {
				r.OracleFail("idna-identity-assumption", "ToASCII "+c11Hex(mid), a, "ToASCII must be the identity on the ASCII output of step 4")
			}
			if u, uerr := idna.ToUnicode(d); uerr != nil || u != d {
				r.OracleFail("idna-identity-assumption", "ToUnicode "+c11Hex(d), u, "ToUnicode must be the identity on ASCII domains without xn-- labels")
			}
		}
		bl := fmt.Sprintf("c11 basic %s %s %s", c11Hex(d), uni, asc)
		breal := "err"
		if berr == nil {
			breal = "ok " + c11Hex(basic)
		}
		which := "basic"
		if berr != nil || len(basic) > 63 {
			which = "fallback"
		}
		r.Case("prefix/"+cls+"/"+which, bl, d != "")
		r.Compare("domainPrefixBasic", bl, breal, r.Model(bl))
		fl := "c11 fallback " + vh.Hex(digest[:])
		r.Compare("domainPrefixFallback", fl, c11Hex(fb), r.Model(fl))
		pl := fmt.Sprintf("c11 prefix %s %s %s %s", c11Hex(d), vh.Hex(digest[:]), uni, asc)
		r.Compare("domainPrefix", pl, c11Hex(pfx), r.Model(pl))
		// oracles
		if strings.Contains(pfx, ".") || len(pfx) > 63 {
			r.OracleFail("domain-prefix-not-a-label", pl, pfx, "the domain prefix must be a single dot-free label of at most 63 bytes")
		}
		if sb, serr := c11SpecBasic(d); (serr == nil) != (berr == nil) || (serr == nil && sb != basic) {
			r.OracleFail("domain-prefix-basic-not-the-amp-algorithm", bl, breal, fmt.Sprintf("the basic algorithm of the AMP cache URL format gives %s (error %v)", c11Hex(sb), serr))
		}
		want := fb
		if berr == nil && len(basic) <= 63 {
			want = basic
		}
		if pfx != want {
			r.OracleFail("domain-prefix-choice", pl, pfx, "basic result when it is a valid label, else the fallback")
		}
		indep := strings.TrimRight(strings.ToLower(base32.StdEncoding.EncodeToString(digest[:])), "=")
		if fb != indep || len(fb) != 52 {
			r.OracleFail("domain-prefix-fallback", fl, fb, "fallback must be the 52 lower-case base32 characters of SHA-256(domain)")
		}
		if simple && (berr != nil || basic != c11SpecBasicASCII(d)) {
			r.OracleFail("domain-prefix-basic-spec", bl, breal, "basic algorithm of the AMP specification on an ASCII domain")
		}
	}

	// ---------------------------------------------------------------- 4. CacheURL
	pubSchemes := []string{"http", "http", "https", "https", "https", "https", "https", "ftp", "HTTPS", "ws"}
	pubUsers := []string{"", "", "", "", "", "", "", "", "", "user@", "u:p@", "@"}
	pubHosts := []string{"example.com", "snowflake-broker.torproject.net", "a-b.example.com", "en-us.example.com", "EXAMPLE.com", "xn--bcher-kva.example", "bücher.example",
		"[::1]", "192.0.2.7", "", strings.Repeat("a", 70) + ".example", "a.b.c.d.e.f", "exa%6dple.com"}
	pubPorts := []string{"", "", "", "", "", "", ":80", ":443", ":8080", ":0", ":"}
	pubPaths := []string{"", "/", "/a/b", "/amp/client/0aGVsbG8/d29ybGQ", "/a//b/", "/a/../b", "/../../x", "/%2F/x", "/a%20b", "/a b", "/./x/.", "/x/", "/é", "/a;b,c", "/a%zzb", "/a%2"}
	queries := []string{"", "", "?", "?x=1", "?a=b&c=d%20e"}
	frags := []string{"", "", "#", "#frag", "#a%20b"}
	caches := []string{"https://cdn.ampproject.org/", "https://cdn.ampproject.org", "https://amp.cache.example/amp/cache", "http://cache.example:8443/x/", "https://user:pw@cache.example/",
		"https://cache.example/?q=1", "https://cache.example/#f", "http://[::1]:8080/x", "https://cache.example//a/./b/../c/", "//cache.example/p", "https://cache.example/a%2Fb"}
	ctypes := []string{"c", "c", "c", "i", "", "a/b", "c c", "é", "..", "."}
	for i := 0; i < r.N(1500, 30000); i++ {
		ps := pubSchemes[rng.Intn(len(pubSchemes))]
		pubStr := ps + "://" + pubUsers[rng.Intn(len(pubUsers))] + pubHosts[rng.Intn(len(pubHosts))] + pubPorts[rng.Intn(len(pubPorts))] +
			pubPaths[rng.Intn(len(pubPaths))] + queries[rng.Intn(len(queries))] + frags[rng.Intn(len(frags))]
		cacheStr := caches[rng.Intn(len(caches))]
		ct := ctypes[rng.Intn(len(ctypes))]
		pub, err1 := url.Parse(pubStr)
		cache, err2 := url.Parse(cacheStr)
		if err1 != nil || err2 != nil {
			r.Case("cacheurl/unparsable", pubStr, false)
			continue
		}
		var res *url.URL
		var cerr error
		func() {
			defer func() {
				if x := recover(); x != nil {
					cerr = fmt.Errorf("panic: %v", x)
				}
			}()
			res, cerr = CacheURL(pub, cache, ct)
		}()
		hasUser := ""
		if pub.User != nil {
			hasUser = "1"
		}
		cuser := ""
		if cache.User != nil {
			cuser = cache.User.String()
		}
		pfx := domainPrefix(pub.Hostname())
		line := fmt.Sprintf("c11 cacheurl %s %s %s %s",
			c11Fields(pub.Scheme, hasUser, pub.Hostname(), pub.Port(), pub.EscapedPath(), pub.RawQuery, pub.Fragment),
			c11Fields(cache.Scheme, cuser, cache.Hostname(), cache.Port(), cache.EscapedPath(), cache.RawQuery, cache.Fragment),
			c11Hex(ct), c11Hex(pfx))
		caseLine := fmt.Sprintf("CacheURL(%q, %q, %q)", pubStr, cacheStr, ct)
		real := ""
		if cerr != nil {
			real = "err " + c11CacheErr(cerr)
		} else {
			ruser := ""
			if res.User != nil {
				ruser = res.User.String()
			}
			real = fmt.Sprintf("ok %s %s %s %s %s %s", c11Hex(res.Scheme), c11Hex(ruser), c11Hex(res.Host), c11Hex(res.RawPath), c11Hex(res.RawQuery), c11Hex(res.Fragment))
		}
		r.Case("cacheurl/"+strings.SplitN(real, " ", 3)[0]+"/"+func() string {
			if cerr != nil {
				return c11CacheErr(cerr)
			}
			return "ok"
		}(), caseLine, true)
		r.Compare("CacheURL", line+"   # "+caseLine, real, r.Model(line))
		if cerr != nil && strings.HasPrefix(cerr.Error(), "panic") {
			r.OracleFail("cacheurl-panic", caseLine, cerr.Error(), "CacheURL must not panic")
		}
		// the guards of the property
		defaultPort := pub.Port() == "" || (pub.Scheme == "http" && pub.Port() == "80") || (pub.Scheme == "https" && pub.Port() == "443")
		mustFail := pub.User != nil || !defaultPort || (pub.Scheme != "http" && pub.Scheme != "https") || pub.Hostname() == "" || cache.RawQuery != "" || cache.Fragment != "" || ct == ""
		if mustFail && cerr == nil {
			r.OracleFail("cacheurl-guard", caseLine, real, "userinfo, non-default port, bad scheme, empty host, empty content type, cache query/fragment must be errors")
		}
		if !mustFail && cerr != nil && c11CacheErr(cerr) != "unescape" {
			r.OracleFail("cacheurl-spurious-error", caseLine, real, "a well-formed publisher/cache pair must be accepted")
		}
		if cerr == nil {
			wantHost := pfx + "." + cache.Hostname()
			if cache.Port() != "" {
				if strings.Contains(wantHost, ":") {
					wantHost = "[" + wantHost + "]"
				}
				wantHost += ":" + cache.Port()
			}
			if res.Scheme != cache.Scheme || res.RawQuery != pub.RawQuery || res.Fragment != pub.Fragment || res.Host != wantHost {
				r.OracleFail("cacheurl-shape-fields", caseLine, real, "scheme from the cache, query and fragment from the publisher, host = prefix.cachehost[:port]")
			}
			if res.EscapedPath() != res.RawPath {
				r.OracleFail("cacheurl-rawpath-inconsistent", caseLine, real, "RawPath must be a valid encoding of Path")
			}
			cp := strings.TrimSuffix(cache.EscapedPath(), "/")
			if c11Normal(cp) && c11Normal(pub.EscapedPath()) && ct != "." && ct != ".." {
				want := cp + "/" + url.PathEscape(ct)
				if pub.Scheme == "https" {
					want += "/s"
				}
				want += "/" + url.PathEscape(pub.Hostname()) + pub.EscapedPath()
				got := res.RawPath
				if !strings.HasPrefix(got, "/") {
					got = "/" + got // what URL.String() emits when the cache URL has an empty path
				}
				if got != want {
					r.OracleFail("cacheurl-shape-path", caseLine, real, "path must be cachePath/<type>[/s]/host + publisher path: "+want)
				}
			}
		}
	}
}

func c11Unhex(s string) ([]byte, bool) {
	if s == "-" {
		return nil, true
	}
	if len(s)%2 != 0 {
		return nil, false
	}
	out := make([]byte, len(s)/2)
	for i := range out {
		var v byte
		for j := 0; j < 2; j++ {
			c := s[2*i+j]
			switch {
			case c >= '0' && c <= '9':
				v = v<<4 | (c - '0')
			case c >= 'a' && c <= 'f':
				v = v<<4 | (c - 'a' + 10)
			default:
				return nil, false
			}
		}
		out[i] = v
	}
	return out, true
}
