#!/usr/bin/env python3
"""Entry point of the verification machinery.

    python3 run.py <Cxx> <quick|thorough>        decide one property on /repo's working tree
    python3 run.py <Cxx> replay <path>           re-run the check and show the recorded finding
    python3 run.py setup                         build everything once (MANIFEST.setup_cmd)

Steps per property (DESIGN.md §2.1, §4):
  extract   go run /verif/extract   -> lean/Snowflake/Generated/*.lean   (translator tie)
  prove     lake build of the property's modules; `#print axioms` audit of every obligation
  harness   go test -overlay in the package under test: correspondence (real code vs sfdriver)
            and the property oracle on the real code
  verdict   exit 0, or VIOLATION line(s) + exit 1; evidence/<id>.json is rewritten
"""
import fcntl
import hashlib
import json
import os
import re
import subprocess
import sys
import time

VERIF = os.path.dirname(os.path.abspath(__file__))
REPO = os.environ.get("VERIF_REPO", "/repo")
LEAN = os.path.join(VERIF, "lean")
CACHE = os.path.join(VERIF, ".cache")
sys.path.insert(0, os.path.join(VERIF, "tools"))
from registry import PROPS, TRUSTED_BASE  # noqa: E402

CRASH = []  # go test runs that died without writing a result (filled by step_harness_one)
ALLOWED_AXIOMS = {"propext", "Classical.choice", "Quot.sound"}
GOENV = dict(os.environ, GOFLAGS="-mod=mod", GOPROXY="off", GOSUMDB="off", GOTOOLCHAIN="local",
             CGO_ENABLED=os.environ.get("CGO_ENABLED", "1"))


MEM_LIMIT_KB = int(float(os.environ.get("VERIF_MEM_LIMIT_GB", "12")) * 1024 * 1024)


def _group_rss_kb(pgid):
    """Resident memory of all processes of a process group (the command, go test, the test binary, its children)."""
    total = 0
    for d in os.listdir("/proc"):
        if not d.isdigit():
            continue
        try:
            with open(f"/proc/{d}/stat") as f:
                st = f.read()
            if int(st[st.rindex(")") + 2:].split()[2]) != pgid:
                continue
            with open(f"/proc/{d}/statm") as f:
                total += int(f.read().split()[1]) * 4
        except (OSError, ValueError, IndexError):
            continue
    return total


def sh(cmd, cwd=None, env=None, timeout=None):
    """Run a command in a process group of its own; the whole group is killed when it runs past `timeout` seconds or
    holds more than VERIF_MEM_LIMIT_GB of memory (a change to the code under test can make a harness run away; the
    check must come back with a verdict, not take the machine down). Returns (exit status, combined output)."""
    import signal
    import threading
    p = subprocess.Popen(cmd, cwd=cwd, env=env, stdout=subprocess.PIPE, stderr=subprocess.STDOUT, text=True,
                         errors="replace", start_new_session=True)
    why = []
    done = threading.Event()

    def watch():
        t0 = time.time()
        while not done.wait(1.0):
            if timeout and time.time() - t0 > timeout:
                why.append(f"[verif: killed after {int(timeout)} s (timeout)]")
            elif _group_rss_kb(p.pid) > MEM_LIMIT_KB:
                why.append(f"[verif: killed, more than {MEM_LIMIT_KB // (1024 * 1024)} GB of memory in use (memory limit)]")
            else:
                continue
            try:
                os.killpg(p.pid, signal.SIGKILL)
            except OSError:
                pass
            return

    th = threading.Thread(target=watch, daemon=True)
    th.start()
    out, _ = p.communicate()
    done.set()
    th.join()
    if why:
        return (p.returncode if p.returncode else -9), (out or "") + "\n" + why[0] + "\n"
    return p.returncode, out


class Lock:
    def __init__(self, name):
        os.makedirs(CACHE, exist_ok=True)
        self.path = os.path.join(CACHE, name + ".lock")

    def __enter__(self):
        self.f = open(self.path, "w")
        fcntl.flock(self.f, fcntl.LOCK_EX)
        return self

    def __exit__(self, *a):
        fcntl.flock(self.f, fcntl.LOCK_UN)
        self.f.close()


def treehash():
    rc, a = sh(["git", "-C", REPO, "ls-files", "-s"])
    rc, b = sh(["git", "-C", REPO, "diff", "HEAD"])
    rc, c = sh(["git", "-C", REPO, "status", "--porcelain"])
    return hashlib.sha256((a + b + c).encode()).hexdigest()[:16]


def step_extract(log):
    """Regenerate the Generated/*.lean modules from the working tree."""
    # under the same lock as the Lean builds: the generated modules are not replaced while another check compiles them
    with Lock("lake"):
        exe = os.path.join(CACHE, "extract.bin")
        rc, out = sh(["go", "build", "-o", exe, "."], cwd=os.path.join(VERIF, "extract"), env=GOENV)
        if rc != 0:
            log.append("extract build failed:\n" + out)
            return False
        rc, out = sh([exe, REPO, os.path.join(LEAN, "Snowflake", "Generated")])
        if rc != 0:
            log.append("extract run failed:\n" + out)
            return False
    return True


def step_lake(modules, log):
    """Build the given modules (and sfdriver). Returns (ok, failed_module_errors)."""
    with Lock("lake"):
        rc, out = sh(["lake", "build", "sfdriver"] + modules, cwd=LEAN, timeout=3000)
    errs = [l for l in out.splitlines() if l.startswith("error:") or "error:" in l[:60]]
    if rc != 0:
        log.append("lake build failed:\n" + "\n".join(out.splitlines()[-60:]))
    return rc == 0, errs, out


def step_audit(prop, obligations, log):
    """`#print axioms` for every obligation; an obligation is discharged iff it exists, is free of
    sorry and depends only on the allowed axioms."""
    res = {}
    by_mod = {}
    for mod, thm in obligations:
        by_mod.setdefault(mod, []).append(thm)
    os.makedirs(os.path.join(CACHE, "audit"), exist_ok=True)
    for mod, thms in by_mod.items():
        path = os.path.join(CACHE, "audit", f"Audit_{prop}_{mod.replace('.', '_')}.lean")
        with open(path, "w") as f:
            f.write(f"import {mod}\n")
            for t in thms:
                f.write(f"#print axioms {t}\n")
        with Lock("lake"):
            rc, out = sh(["lake", "env", "lean", path], cwd=LEAN, timeout=1200)
        # parse: "'name' depends on axioms: [a, b]" or "'name' does not depend on any axioms"
        text = out.replace("\n  ", " ").replace("\n ", " ")
        for t in thms:
            m = re.search(r"'" + re.escape(t) + r"' (does not depend on any axioms|depends on axioms: \[([^\]]*)\])", text)
            if not m:
                res[(mod, t)] = {"ok": False, "why": "not found / module failed to build"}
                continue
            axs = [a.strip() for a in (m.group(2) or "").split(",") if a.strip()]
            bad = [a for a in axs if a not in ALLOWED_AXIOMS]
            res[(mod, t)] = {"ok": not bad, "axioms": axs, "why": ("forbidden axioms " + ",".join(bad)) if bad else ""}
        if rc != 0:
            log.append(f"audit of {mod}:\n" + "\n".join(out.splitlines()[-20:]))
    return res


FORBIDDEN = re.compile(r"\b(sorry|admit|native_decide|bv_decide|implemented_by|unsafe)\b|^axiom |maxHeartbeats 0")


def step_grep(log):
    """No sorry/admit/axiom/native_decide/... outside comments in hand-written Lean files."""
    hits = []
    for root, _, files in os.walk(os.path.join(LEAN, "Snowflake")):
        for fn in files:
            if not fn.endswith(".lean"):
                continue
            p = os.path.join(root, fn)
            incomment = 0
            for i, line in enumerate(open(p, encoding="utf-8"), 1):
                s = line
                # crude comment stripping: block comments and line comments
                out = ""
                j = 0
                while j < len(s):
                    if s.startswith("/-", j):
                        incomment += 1
                        j += 2
                    elif s.startswith("-/", j) and incomment:
                        incomment -= 1
                        j += 2
                    elif incomment:
                        j += 1
                    elif s.startswith("--", j):
                        break
                    else:
                        out += s[j]
                        j += 1
                if FORBIDDEN.search(out):
                    hits.append(f"{os.path.relpath(p, LEAN)}:{i}: {line.strip()}")
    if hits:
        log.append("forbidden constructs:\n" + "\n".join(hits))
    return hits


def prepare_overlay(spec, optional=True):
    os.makedirs(CACHE, exist_ok=True)
    for f in ("go.mod", "go.sum"):
        src = os.path.join(REPO, f)
        dst = os.path.join(CACHE, "repo.go.mod" if f == "go.mod" else "repo.go.sum")
        with open(src, "rb") as a:
            data = a.read()
        if not os.path.exists(dst) or open(dst, "rb").read() != data:
            tmp = f"{dst}.{os.getpid()}.{time.time_ns()}.tmp"
            with open(tmp, "wb") as b:
                b.write(data)
            os.replace(tmp, dst)
    rep = {os.path.join(REPO, "common/zzverif/vh.go"): os.path.join(VERIF, "harness/vh/vh.go")}
    for virt, real in spec.get("overlay", {}).items():
        rep[os.path.join(REPO, virt)] = os.path.join(VERIF, "harness", real)
    if optional:
        # harness parts that touch unexported internals: dropped when they no longer compile (step_harness_one)
        for virt, real in spec.get("optional_overlay", {}).items():
            rep[os.path.join(REPO, virt)] = os.path.join(VERIF, "harness", real)
    # several harnesses of one property run at the same time (and several checks may run at once): the file is named
    # after its content and put in place atomically, so no go command ever reads a half-written overlay
    data = json.dumps({"Replace": rep}, sort_keys=True)
    path = os.path.join(CACHE, f"overlay_{spec['id']}{'' if optional else '_core'}_{hashlib.sha256(data.encode()).hexdigest()[:12]}.json")
    if not os.path.exists(path):
        tmp = f"{path}.{os.getpid()}.{time.time_ns()}.tmp"
        with open(tmp, "w") as f:
            f.write(data)
        os.replace(tmp, path)
    return path


def step_harness(spec, tier, seed, log, race=False, extra_env=None):
    """Run every Go harness of the property; merge the results. None if any of them produced no result."""
    hs = spec.get("harness")
    merged = {"evaluations": 0, "distinct_nontrivial": 0, "findings": [], "samples": [], "distribution": {}, "notes": [],
              "skipped": [], "model_calls": 0, "go_test_rc": 0, "go_test_tail": "", "wall_s": 0}
    if not hs:
        return merged
    if isinstance(hs, dict):
        hs = [hs]
    if os.environ.get("VERIF_ONLY_HARNESS"):  # development aid: run a subset of the harnesses
        hs = [h for h in hs if re.search(os.environ["VERIF_ONLY_HARNESS"], h["pkg"] + " " + h["test"])]
    par = int(spec.get("parallel", 1))
    if par > 1:
        from concurrent.futures import ThreadPoolExecutor
        with ThreadPoolExecutor(max_workers=par) as ex:
            results = list(ex.map(lambda h: step_harness_one(spec, h, tier, seed, log, race, extra_env), hs))
    else:
        results = None
    for i, h in enumerate(hs):
        res = results[i] if results is not None else step_harness_one(spec, h, tier, seed, log, race, extra_env)
        if res is None:
            return None
        for k in ("evaluations", "distinct_nontrivial", "model_calls", "wall_s"):
            merged[k] += res.get(k) or 0
        for k in ("findings", "samples", "notes", "skipped"):
            merged[k] += res.get(k) or []
        for k, v in (res.get("distribution") or {}).items():
            merged["distribution"][k] = merged["distribution"].get(k, 0) + v
        if res.get("go_test_rc"):
            merged["go_test_rc"] = res["go_test_rc"]
        merged["go_test_tail"] += res.get("go_test_tail", "")
    return merged


def parse_race_reports(text):
    """Split race-detector output into reports; key each by the first frame of either stack that lies in the code under test."""
    out = []
    for block in text.split("=================="):
        if "WARNING: DATA RACE" not in block:
            continue
        tops, kinds = [], []
        for st in re.split(r"\n\s*\n", block.strip()):
            lines = [l for l in st.splitlines() if "WARNING: DATA RACE" not in l]
            if not lines:
                continue
            m = re.match(r"\s*((?:Previous )?(?:atomic )?(?:write|read)) at ", lines[0], re.I)
            if not m:
                continue
            kinds.append(m.group(1).lower().replace("previous ", ""))
            top = None
            for i in range(1, len(lines) - 1):
                loc = lines[i + 1].strip()
                if loc.startswith(REPO + "/"):
                    if "zz_verif" in loc or "/zzverif/" in loc:
                        top = "HARNESS"  # the access itself is performed by harness code
                    else:
                        fn = re.sub(r"\([^()]*\)$", "", lines[i].strip()).split("/")[-1]
                        top = fn + "@" + os.path.basename(loc.split(":")[0])
                    break
            tops.append(top)
        real = sorted(t for t in tops if t and t != "HARNESS")
        if tops and all(t == "HARNESS" for t in tops):
            key = "race:harness-only"  # both accesses are performed by harness code: the harness's own data
        elif "HARNESS" in tops:
            # one access is performed in a harness frame, the other inside the code under test (or below it, stack
            # cut off): the harness called into the code the way the code's own goroutines do (e.g. a method with a
            # value receiver copies the object in the caller's frame) - that is a race of the code's data
            key = "race:" + "|".join(real + ["called-from-harness"])
        else:
            key = "race:" + "|".join(real) if real else "race:outside-the-code-under-test"
        out.append({"key": key, "kinds": kinds, "tops": tops, "report": block.strip()[:6000]})
    return out


def step_harness_one(spec, h, tier, seed, log, race=False, extra_env=None, optional=True):
    race = race or bool(h.get("race"))
    tier = h.get("tier", tier)
    ov = prepare_overlay(spec, optional)
    outp = os.path.join(CACHE, f"harness_{spec['id']}_{h['test']}_{tier}_{os.getpid()}.json")
    if os.path.exists(outp):
        os.remove(outp)
    env = dict(GOENV, VERIF_TIER=tier, VERIF_SEED=str(seed), VERIF_OUT=outp,
               VERIF_SFDRIVER=os.path.join(LEAN, ".lake/build/bin/sfdriver"), VERIF_DIR=VERIF)
    if extra_env:
        env.update(extra_env)
    cmd = ["go", "test", "-count=1", "-vet=off", "-tags", "verif",
           "-modfile=" + os.path.join(CACHE, "repo.go.mod"), "-overlay=" + ov,
           "-run", h["test"], "-timeout", h.get("timeout", "10m" if tier == "quick" else "30m")]
    if h.get("checklinkname"):
        cmd.append("-ldflags=-checklinkname=0")
    racelog = os.path.join(CACHE, f"race_{spec['id']}_{re.sub(r'[^A-Za-z0-9]', '', h['test'])}_{os.getpid()}")
    if race:
        cmd.append("-race")
        # suppress_equal_addresses=0: by default the detector reports one race per address, so a racing access made by the
        # harness itself (classified harness-only and ignored) would hide the same race between two sites of the code
        env["GORACE"] = f"halt_on_error=0 suppress_equal_addresses=0 log_path={racelog}"
        env["VERIF_RACE"] = "1"
    cmd.append("./" + h["pkg"])
    t0 = time.time()
    rc, out = sh(cmd, cwd=REPO, env=env, timeout=h.get("timeout_s", 2400))
    races = []
    if race:
        text = out
        d = os.path.dirname(racelog)
        for fn in os.listdir(d):
            if fn.startswith(os.path.basename(racelog) + "."):
                text += "\n" + open(os.path.join(d, fn), errors="replace").read()
                os.remove(os.path.join(d, fn))
        races = parse_race_reports(text)
    res = None
    if os.path.exists(outp):
        try:
            res = json.load(open(outp))
        except Exception as e:  # noqa
            log.append(f"harness result unreadable: {e}")
        os.remove(outp)
    if res is None and optional and spec.get("optional_overlay") and "[build failed]" in out:
        # the optional harness part (it calls unexported functions) may be what no longer compiles: run the
        # rest of the harness, which only uses the packages' entry points
        log.append("harness build failed with the optional part; retrying without it:\n" + "\n".join(out.splitlines()[-12:]))
        res2 = step_harness_one(spec, h, tier, seed, log, race, extra_env, optional=False)
        if res2 is not None:
            res2.setdefault("notes", []).append("optional harness part dropped (it no longer compiles against the code under test): "
                                                + ", ".join(spec["optional_overlay"].values()))
            res2.setdefault("findings", []).append({"kind": "correspondence", "key": "optional-harness-part-does-not-compile",
                                                    "case": ", ".join(spec["optional_overlay"].values()), "real": "\n".join(l for l in out.splitlines() if ".go:" in l)[:1500],
                                                    "model": "", "detail": "templates that replay a handler's statements by hand no longer compile"})
        return res2
    if res is None:
        tail = "\n".join(out.splitlines()[-60:])
        log.append("harness did not produce a result (build failure or crash):\n" + tail)
        CRASH.append({"test": h["test"], "pkg": h["pkg"], "output_tail": tail,
                      "panic": "panic:" in out or "fatal error:" in out, "timeout": "test timed out" in out or "(timeout)]" in out,
                      "memory": "(memory limit)]" in out})
        return None
    if race:
        if h.get("race_only"):
            # under the race detector only race reports are findings of this run: the other oracles of the
            # harness belong to their own property and are timing-sensitive under the detector's slowdown
            res["findings"] = []
        seen = set()
        nrep = 0
        for r in races:
            nrep += 1
            if r["key"] in seen:
                continue
            seen.add(r["key"])
            if r["key"] in ("race:harness-only", "race:outside-the-code-under-test"):
                # both accesses are performed by harness code, or no frame of either stack lies in the repository:
                # not evidence about the code under test
                res.setdefault("notes", []).append("race report without a frame in the code under test (ignored): " + " / ".join(str(t) for t in r.get("tops", []))
                                                   + " :: " + re.sub(r"\s+", " ", r["report"])[:900])
                continue
            kind = "oracle"
            res.setdefault("findings", []).append({"kind": kind, "key": r["key"], "case": f"{h['pkg']} {h['test']} under -race (seed {seed}, tier {tier})",
                                                   "real": r["report"], "model": "",
                                                   "detail": "the happens-before race detector reported conflicting accesses not ordered by synchronisation (" + "/".join(r["kinds"]) + ")"})
        res.setdefault("notes", []).append(f"{h['pkg']} {h['test']}: -race run, {nrep} race report(s), {len(seen)} distinct")
        res.setdefault("distribution", {})["race-run/" + h["pkg"] + "/" + re.sub(r"[^A-Za-z0-9]", "", h["test"])] = 1
    if rc != 0 and not (race and h.get("race_only")) and not res.get("findings") and not (race and races):
        # the harness process failed (a panic outside its recover points, a t.Fatal, a crash of the harness itself)
        # although its result file shows no finding: the run proves nothing, and must not pass for a clean one
        tail = "\n".join(l for l in out.splitlines() if not re.match(r"^\d{4}/\d\d/\d\d ", l))[-2500:]
        res.setdefault("findings", []).append({"kind": "correspondence", "key": "harness-exited-nonzero", "case": f"{h['pkg']} {h['test']}",
                                               "real": tail, "model": "", "detail": "go test failed without a recorded finding"})
    res["go_test_rc"] = rc if not (race and h.get("race_only")) else 0
    res["go_test_tail"] = "\n".join(out.splitlines()[-15:])
    res["wall_s"] = time.time() - t0
    if rc != 0:
        log.append("go test exited non-zero:\n" + res["go_test_tail"])
    return res


def load_known():
    known, fixed = [], []
    p = os.path.join(VERIF, "known_findings.txt")
    if os.path.exists(p):
        for line in open(p):
            line = line.strip()
            if not line or line.startswith("#"):
                continue
            m = re.match(r"known: property=(\S+) key=(\S+) (.*)", line)
            if m:
                known.append({"property": m.group(1), "key": m.group(2), "what": m.group(3)})
            elif line.startswith("fixed:"):
                fixed.append(line)
    return known, fixed


def write_replay(prop, n, payload):
    d = os.path.join(VERIF, "evidence", "replay")
    os.makedirs(d, exist_ok=True)
    path = os.path.join(d, f"{prop}-{n}.json")
    with open(path, "w") as f:
        json.dump(payload, f, indent=1)
    return os.path.relpath(path, VERIF)


def check(prop, tier):
    t0 = time.time()
    spec = PROPS[prop]
    seed = int(os.environ.get("VERIF_SEED", "0") or 0)
    log = []
    th = treehash()
    # clean old replays of this property
    rd = os.path.join(VERIF, "evidence", "replay")
    if os.path.isdir(rd):
        for fn in os.listdir(rd):
            if fn.startswith(prop + "-"):
                os.remove(os.path.join(rd, fn))

    ok_extract = step_extract(log)
    modules = spec["modules"]
    ok_build, errs, lake_out = step_lake(modules, log) if ok_extract else (False, ["extract failed"], "")
    obligations = [(m, t) for m, t in spec["theorems"]] + [(m, t) for m, t in spec.get("ties", [])]
    audit = step_audit(prop, obligations, log)
    if tier == "thorough":
        with Lock("lake"):
            for m in modules:
                rc, out = sh(["lake", "env", "leanchecker", m], cwd=LEAN, timeout=3000)
                if rc != 0:
                    log.append(f"leanchecker {m} failed:\n" + out[-2000:])
                    ok_build = False
    greps = step_grep(log)
    failed_obl = [f"{m}.{t}: {audit[(m, t)]['why']}" for (m, t) in obligations if not audit[(m, t)]["ok"]]
    proofs_ok = ok_extract and ok_build and not failed_obl and not greps

    # harness needs sfdriver; if the lake build failed try to build just the driver
    drv = os.path.join(LEAN, ".lake/build/bin/sfdriver")
    if not ok_build:
        with Lock("lake"):
            sh(["lake", "build", "sfdriver"], cwd=LEAN, timeout=3000)
    res = step_harness(spec, tier, seed, log) if os.path.exists(drv) else None
    harness_ok = res is not None
    # thorough tier: further passes of the whole harness under the following seeds (other random inputs, schedules and
    # timings; the scripted cases repeat, so "distinct" is summed per pass)
    passes = int(os.environ.get("VERIF_PASSES") or spec.get("thorough_passes", 1)) if tier == "thorough" else 1
    for k in range(1, passes):
        if not harness_ok or (res.get("findings") or []):
            break
        more = step_harness(spec, tier, seed + k, log)
        if more is None:
            harness_ok = False
            break
        for key in ("evaluations", "distinct_nontrivial", "model_calls", "wall_s"):
            res[key] = (res.get(key) or 0) + (more.get(key) or 0)
        for key in ("findings", "samples", "notes", "skipped"):
            res[key] = (res.get(key) or []) + (more.get(key) or [])
        for key, v in (more.get("distribution") or {}).items():
            res["distribution"][key] = res["distribution"].get(key, 0) + v
        if more.get("go_test_rc"):
            res["go_test_rc"] = more["go_test_rc"]
        res["go_test_tail"] = (res.get("go_test_tail") or "") + (more.get("go_test_tail") or "")
    if passes > 1 and res is not None:
        res.setdefault("notes", []).append(f"thorough tier: {passes} harness passes planned, seeds {seed}..{seed + passes - 1}")
    findings = (res.get("findings") or []) if res else []
    oracle_fails = [f for f in findings if f["kind"] == "oracle"]
    corr_fails = [f for f in findings if f["kind"] == "correspondence"]

    # the process under test died with a panic: re-run serially with a journal to attribute the crash
    crash_history = None
    if not harness_ok and any(c["panic"] for c in CRASH) and os.path.exists(drv):
        jpath = os.path.join(CACHE, f"journal_{prop}_{os.getpid()}.txt")
        if os.path.exists(jpath):
            os.remove(jpath)
        n0 = len(CRASH)
        step_harness(spec, tier, seed, log, extra_env={"VERIF_SERIAL": "1", "VERIF_JOURNAL": jpath})
        if len(CRASH) > n0 and os.path.exists(jpath):
            lines = open(jpath, errors="replace").read().splitlines()
            if lines:
                inst = lines[-1].split(":")[0]
                crash_history = {"history_until_crash": [l for l in lines if l.startswith(inst + ":")][-60:],
                                 "panic": CRASH[-1]["output_tail"][-3000:]}
        if os.path.exists(jpath):
            os.remove(jpath)

    # search step when the proof/tie/correspondence side is broken but no oracle failure yet
    widened = None
    if (not proofs_ok or corr_fails or not harness_ok) and not oracle_fails and tier == "quick" and os.path.exists(drv):
        widened = step_harness(spec, "thorough", seed + 1, log, extra_env={"VERIF_SEARCH": "1"})
        if widened:
            oracle_fails = [f for f in (widened.get("findings") or []) if f["kind"] == "oracle"]

    # Lean-side search on the regenerated definitions (translated functions), when nothing concrete was found yet
    if (not proofs_ok or corr_fails) and not oracle_fails and spec.get("lean_search"):
        with Lock("lake"):
            rc, out = sh(["lake", "env", "lean", spec["lean_search"]], cwd=LEAN, timeout=600)
        for line in out.splitlines():
            m = re.match(r"COUNTEREXAMPLE (\S+) \| (.*)", line)
            if m:
                oracle_fails.append({"kind": "oracle", "key": m.group(1), "case": m.group(2), "real": "evaluated on the functions translated from the current source (" + spec["lean_search"] + ")",
                                     "model": "", "detail": "the property clause fails on the regenerated definition at this input"})

    if tier == "thorough" and spec.get("race") and harness_ok:
        rres = step_harness(spec, "quick", seed, log, race=True)
        if rres is None or rres.get("go_test_rc") != 0:
            tail = (rres or {}).get("go_test_tail", "")
            if "DATA RACE" in tail or rres is None:
                log.append("race-enabled harness run failed")
                corr_fails.append({"kind": "correspondence", "key": "race-run", "case": "-race harness run", "real": tail, "model": "", "detail": ""})

    known, _fixed = load_known()
    violations = []
    known_hits = []
    n = 0
    seen_keys = set()
    for f in oracle_fails:
        if f["key"] in seen_keys:
            continue
        seen_keys.add(f["key"])
        kf = [k for k in known if k["property"] == prop and k["key"] == f["key"]]
        if kf:
            known_hits.append((kf[0], f))
            continue
        n += 1
        path = write_replay(prop, n, {"property": prop, "kind": "failing-input", "finding": f, "treehash": th,
                                      "how_to_replay": f"python3 run.py {prop} replay <this file>"})
        violations.append((path, ""))
    if not violations and crash_history:
        n += 1
        path = write_replay(prop, n, {"property": prop, "kind": "failing-input",
                                      "finding": {"kind": "oracle", "key": "process-under-test-panics",
                                                  "case": "\n".join(crash_history["history_until_crash"]),
                                                  "real": crash_history["panic"],
                                                  "detail": "the real code panicked while serving this request history (serial re-run of the harness with a journal)"},
                                      "treehash": th})
        violations.append((path, ""))
    if not violations:
        broken = []
        if not ok_extract:
            broken.append("translator (extract) failed")
        if not ok_build:
            broken.append("lake build failed: " + "; ".join(errs[:5]))
        broken += failed_obl
        broken += ["forbidden construct: " + g for g in greps]
        if not harness_ok:
            broken.append("harness did not run to completion (the implementation no longer builds with the harness, panicked under it, or hung)")
            for c in CRASH:
                kind = ("panic in the process under test" if c["panic"] else "hang: go test timed out" if c["timeout"]
                        else "the harness process ran away with memory and was killed" if c.get("memory") else "build failure or crash")
                broken.append(f"{c['pkg']} {c['test']}: {kind}\n{c['output_tail'][-3000:]}")
        for f in corr_fails[:5]:
            broken.append(f"correspondence {f['key']}: case {f['case'][:300]} real={f['real'][:200]} model={f['model'][:200]}")
        if broken:
            n += 1
            path = write_replay(prop, n, {"property": prop, "kind": "no-failing-input-found",
                                          "no_longer_checks": broken, "log": log[-10:], "treehash": th,
                                          "searched": "widened oracle run" if widened else "oracle run of this tier"})
            violations.append((path, " no-failing-input-found"))

    for k, f in known_hits:
        print(f"KNOWN-FINDING: property={prop} {k['what']} [key={k['key']}]")
    for path, suffix in violations:
        print(f"VIOLATION property={prop} replay={path}{suffix}")

    # evidence
    discharged = sum(1 for o in obligations if audit[o]["ok"]) if ok_build else sum(1 for o in obligations if audit[o]["ok"])
    cov = {
        "obligations": len(obligations),
        "discharged": discharged,
        "checker_cmd": "lake build sfdriver " + " ".join(modules) + " && lake env lean <#print axioms audit>" + (" && lake env leanchecker <modules>" if tier == "thorough" else ""),
        "trusted_base": TRUSTED_BASE + spec.get("trusted", []),
        "obligation_list": [{"module": m, "theorem": t, "ok": audit[(m, t)]["ok"], "axioms": audit[(m, t)].get("axioms", [])} for (m, t) in obligations],
        "evaluations": (res or {}).get("evaluations", 0),
        "distinct_nontrivial": (res or {}).get("distinct_nontrivial", 0),
        "rule": spec.get("rule", ""),
        "samples": (res or {}).get("samples", [])[:40] or [f"{m}.{t}" for m, t in obligations[:10]],
        "distribution": (res or {}).get("distribution", {}),
        "correspondence_disagreements": len(corr_fails),
        "oracle_failures": len(oracle_fails),
        "known_findings_seen": [k["key"] for k, _ in known_hits],
        "skipped": (res or {}).get("skipped", []),
        "notes": (res or {}).get("notes", []),
        "treehash": th,
        "model_calls": (res or {}).get("model_calls", 0),
    }
    ev = {
        "property_id": prop, "tier": tier, "seed": seed, "level": "proof", "coverage": cov,
        "assumptions": spec.get("assumptions", []),
        "wall_s": round(time.time() - t0, 2), "violations": len(violations),
    }
    os.makedirs(os.path.join(VERIF, "evidence"), exist_ok=True)
    with open(os.path.join(VERIF, "evidence", prop + ".json"), "w") as f:
        json.dump(ev, f, indent=1)
    if log and (violations or os.environ.get("VERIF_VERBOSE")):
        sys.stderr.write("\n".join(log) + "\n")
    print(f"{prop} {tier}: obligations {discharged}/{len(obligations)}, cases {cov['evaluations']} "
          f"(distinct non-trivial {cov['distinct_nontrivial']}), correspondence disagreements {len(corr_fails)}, "
          f"oracle failures {len(oracle_fails)}, violations {len(violations)}, {ev['wall_s']} s")
    return 1 if violations else 0


def setup():
    log = []
    ok = step_extract(log)
    with Lock("lake"):
        rc, out = sh(["lake", "build"], cwd=LEAN, timeout=6000)
    print("\n".join(out.splitlines()[-15:]))
    if log:
        print("\n".join(log))
    # warm the Go build cache for the harness packages
    for prop, spec in PROPS.items():
      hs = spec.get("harness") or []
      if isinstance(hs, dict):
        hs = [hs]
      for h in hs:
        ov = prepare_overlay(spec)
        cmd = ["go", "test", "-count=1", "-vet=off", "-tags", "verif", "-modfile=" + os.path.join(CACHE, "repo.go.mod"),
               "-overlay=" + ov, "-run", "^$"]
        if h.get("checklinkname"):
            cmd.append("-ldflags=-checklinkname=0")
        if h.get("race"):
            cmd.append("-race")
        cmd.append("./" + h["pkg"])
        rc2, out2 = sh(cmd, cwd=REPO, env=GOENV, timeout=3000)
        if rc2 != 0:
            print(f"warm {prop}: rc={rc2}\n" + "\n".join(out2.splitlines()[-10:]))
    return 0 if (ok and rc == 0) else 1


def main():
    if len(sys.argv) >= 2 and sys.argv[1] == "setup":
        sys.exit(setup())
    if len(sys.argv) < 3 or sys.argv[1] not in PROPS:
        print(__doc__)
        sys.exit(2)
    prop, mode = sys.argv[1], sys.argv[2]
    if mode == "replay":
        if len(sys.argv) > 3 and os.path.exists(sys.argv[3]):
            print(open(sys.argv[3]).read())
        sys.exit(check(prop, os.environ.get("VERIF_TIER", "quick")))
    if mode not in ("quick", "thorough"):
        print(__doc__)
        sys.exit(2)
    sys.exit(check(prop, mode))


if __name__ == "__main__":
    main()
